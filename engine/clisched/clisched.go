// Package clisched runs N goroutines sharing one Client / SerialClient (transformed sources) under the cooperative
// scheduler against a device that answers requests in arrival order, and judges the execution with the C14 oracle:
// exchanges contiguous on the wire, every caller gets the reply to its own request, no panic, no deadlock.
package clisched

import (
	"context"
	"errors"
	"fmt"
	"io"
	"net"
	"os"
	"strings"
	"time"

	modbus "github.com/aldas/go-modbus-client"
	"github.com/aldas/go-modbus-client/packet"
	"github.com/aldas/go-modbus-client/verifshim/vsched"
	"github.com/aldas/go-modbus-client/verifshim/vtime"
	"verif/spec"
)

// Scenario describes the closed system.
type Scenario struct {
	Name    string `json:"name"`
	Kind    string `json:"kind"`    // "tcp", "rtu" (network clients), "serial", "serial-flusher"
	Callers int    `json:"callers"` // goroutines issuing request calls
	Calls   int    `json:"calls"`   // request calls per goroutine
	Close   bool   `json:"close"`   // one more goroutine calls Close once
	Connect bool   `json:"connect"` // one more goroutine calls Connect once (network clients)
	Hooks   bool   `json:"hooks"`   // a ClientHooks value is installed (its calls must come from the thread that holds the exchange)
	// LongTimeout: the client's total read timeout is 1 h of virtual time (needed when "time first" deviations are on
	// offer, which could otherwise jump to the timeout); otherwise it is 20 ms (network) / 100 ms (serial), so that a
	// call whose reply was stolen by another goroutine ends after a few polls instead of spinning.
	LongTimeout bool `json:"long_timeout"`
	// SameTarget: every call asks for the same unit, address and quantity (the calls collide on everything but the
	// transaction id; over RTU the frames are identical). Otherwise every call has its own target and reply length.
	SameTarget bool `json:"same_target,omitempty"`
	// DeviceDelayMs: the device needs that long (virtual time) to answer a request; 0 = at once. With a delay the callers
	// that queue behind an exchange wait for real (virtual) time - longer than the client's read timeout when there are enough
	// of them.
	DeviceDelayMs int `json:"device_delay_ms,omitempty"`
	// Close2: a second goroutine calls Close as well
	Close2 bool `json:"close2,omitempty"`
}

// Event is one transport operation as seen on the wire.
type Event struct {
	Thread int
	Call   int // global call number of the request call the calling thread is in (-1: Close / Connect thread)
	Conn   int
	Op     string // W, R, C (close), F (flush), D (dial)
	Data   []byte
	Err    string
}

// V is one oracle failure.
type V struct {
	Kind  string
	Msg   string
	Attrs map[string]any
}

type Result struct {
	Out     vsched.Outcome
	V       []V
	Summary string
	Order   string // order in which exchanges appeared on the wire
}

type callRec struct {
	caller, k int
	req       packet.Request
	reqBytes  []byte
	want      []byte
	resp      packet.Response
	err       error
	done      bool
	panicked  string
}

type world struct {
	sc      Scenario
	rtu     bool
	log     []Event
	conns   []*devConn
	calls   []*callRec
	curCall map[int]int // thread id -> global call number
	dev     *spec.Device
	hookLog []Event
}

// devConn is both a net.Conn and a serial port; it answers every complete request written to it, in arrival order.
type devConn struct {
	w      *world
	id     int
	serial bool
	chunks [][]byte // reply chunks waiting to be read
	closed bool
	rdl    time.Time
	// readyAt: virtual instant from which the buffered reply can be read (device latency)
	readyAt int64
}

func (w *world) ev(e Event) {
	if vsched.Aborted() {
		return
	}
	e.Thread = vsched.ThreadID()
	c, ok := w.curCall[e.Thread]
	if !ok {
		c = -1
	}
	e.Call = c
	w.log = append(w.log, e)
}

// sync is the happens-before side of a transport operation. A network connection is safe for concurrent use (net.Conn
// says so: a real descriptor's lock orders the operations, so they observe and publish); a serial port is just an
// io.ReadWriteCloser, nobody promises that - every operation WRITES the port's state, and two operations that the
// client's own locking does not order are a data race in the caller's transport.
func (c *devConn) sync(op string) {
	if c.serial {
		vsched.W(c, "port", "serial port "+op)
		return
	}
	vsched.HBSync(c)
}

func (c *devConn) Write(p []byte) (int, error) {
	vsched.PointObj("write", c.w) // every transport operation of the client is one object: the oracle reads the global wire order
	c.sync("Write")
	if c.closed {
		c.w.ev(Event{Conn: c.id, Op: "W", Data: append([]byte(nil), p...), Err: "closed"})
		return 0, &net.OpError{Op: "write", Net: "dev", Err: net.ErrClosed}
	}
	c.w.ev(Event{Conn: c.id, Op: "W", Data: append([]byte(nil), p...)})
	rq, err := spec.DecodeReq(p, c.w.rtu)
	if err != nil {
		return len(p), nil // not a request the device understands: no answer
	}
	reply := c.w.dev.Handle(rq).Frame(c.w.rtu)
	h := (len(reply) + 1) / 2
	c.chunks = append(c.chunks, append([]byte(nil), reply[:h]...), append([]byte(nil), reply[h:]...))
	if d := c.w.sc.DeviceDelayMs; d > 0 {
		c.readyAt = vsched.NowNs() + int64(d)*int64(time.Millisecond)
	}
	return len(p), nil
}

func (c *devConn) Read(p []byte) (int, error) {
	// nothing to read: wait for the deadline (network) / the port timeout (serial)
	var dl int64
	if c.serial {
		dl = vsched.NowNs() + int64(10*time.Millisecond)
	} else if !c.rdl.IsZero() {
		dl = int64(c.rdl.Sub(vtime.Epoch()))
	} else {
		dl = vsched.NowNs() + int64(time.Second)
	}
	ready := func() bool { return (len(c.chunks) > 0 && vsched.NowNs() >= c.readyAt) || c.closed }
	wake := dl
	if len(c.chunks) > 0 && c.readyAt > vsched.NowNs() && c.readyAt < dl {
		wake = c.readyAt // the reply is on its way: it becomes readable at that instant
	}
	vsched.PointWhenObj("read", ready, wake, c.w)
	if !ready() && vsched.NowNs() < dl {
		vsched.BlockLib("read", ready, dl) // woken by the reply's arrival time but something else consumed it meanwhile: wait on
	}
	c.sync("Read")
	if c.closed {
		c.w.ev(Event{Conn: c.id, Op: "R", Err: "closed"})
		return 0, &net.OpError{Op: "read", Net: "dev", Err: net.ErrClosed}
	}
	if len(c.chunks) == 0 || vsched.NowNs() < c.readyAt {
		c.w.ev(Event{Conn: c.id, Op: "R", Err: "timeout"})
		if c.serial {
			return 0, nil
		}
		return 0, &net.OpError{Op: "read", Net: "dev", Err: os.ErrDeadlineExceeded}
	}
	n := copy(p, c.chunks[0])
	if n < len(c.chunks[0]) {
		c.chunks[0] = c.chunks[0][n:]
	} else {
		c.chunks = c.chunks[1:]
	}
	c.w.ev(Event{Conn: c.id, Op: "R", Data: append([]byte(nil), p[:n]...)})
	return n, nil
}

func (c *devConn) Close() error {
	vsched.PointObj("close", c.w)
	c.sync("Close")
	c.w.ev(Event{Conn: c.id, Op: "C"})
	if c.closed {
		return &net.OpError{Op: "close", Net: "dev", Err: net.ErrClosed}
	}
	c.closed = true
	return nil
}

func (c *devConn) Flush() error {
	vsched.PointObj("flush", c.w)
	c.sync("Flush")
	c.w.ev(Event{Conn: c.id, Op: "F"})
	return nil
}

type addr string

func (a addr) Network() string                        { return "dev" }
func (a addr) String() string                         { return string(a) }
func (c *devConn) LocalAddr() net.Addr                { return addr("local") }
func (c *devConn) RemoteAddr() net.Addr               { return addr("device") }
func (c *devConn) SetDeadline(t time.Time) error      { c.rdl = t; return nil }
func (c *devConn) SetReadDeadline(t time.Time) error  { c.rdl = t; return nil }
func (c *devConn) SetWriteDeadline(t time.Time) error { return nil }

// plainPort hides Flush (serial port without the Flusher interface).
type plainPort struct{ c *devConn }

func (p plainPort) Read(b []byte) (int, error)  { return p.c.Read(b) }
func (p plainPort) Write(b []byte) (int, error) { return p.c.Write(b) }
func (p plainPort) Close() error                { return p.c.Close() }

type hooks struct{ w *world }

func (h hooks) BeforeWrite(b []byte) {
	h.w.hook(Event{Op: "hW", Data: append([]byte(nil), b...)})
}
func (h hooks) AfterEachRead(b []byte, n int, err error) {
	h.w.hook(Event{Op: "hR", Data: append([]byte(nil), b...)})
}
func (h hooks) BeforeParse(b []byte) {
	h.w.hook(Event{Op: "hP", Data: append([]byte(nil), b...)})
}
func (w *world) hook(e Event) {
	if vsched.Aborted() {
		return
	}
	e.Thread = vsched.ThreadID()
	c, ok := w.curCall[e.Thread]
	if !ok {
		c = -1
	}
	e.Call = c
	w.hookLog = append(w.hookLog, e)
}

type doer interface {
	Do(ctx context.Context, req packet.Request) (packet.Response, error)
	Close() error
}

func (w *world) newConn(serial bool) *devConn {
	c := &devConn{w: w, id: len(w.conns) + 1, serial: serial}
	w.conns = append(w.conns, c)
	return c
}

func request(kind string, caller, k int, same bool) (packet.Request, []byte) {
	qty := uint16(1 + caller*2 + k) // distinct reply lengths
	addr := uint16(100 + 16*caller + k)
	unit := uint8(1 + caller)
	tid := uint16(0x0100*(caller+1) + k)
	if same {
		qty, addr, unit = 3, 100, 1
	}
	if kind == "tcp" {
		r, err := packet.NewReadHoldingRegistersRequestTCP(unit, addr, qty)
		if err != nil {
			panic(err)
		}
		r.TransactionID = tid
		return r, r.Bytes()
	}
	r, err := packet.NewReadHoldingRegistersRequestRTU(unit, addr, qty)
	if err != nil {
		panic(err)
	}
	return r, r.Bytes()
}

var pristine = spec.NewDevice(spec.ImageHash, spec.BitImage)

// Run executes the scenario once.
func Run(sc Scenario, cfg vsched.Config) *Result {
	w := &world{sc: sc, rtu: sc.Kind != "tcp", curCall: map[int]int{}, dev: pristine.Clone()}
	res := &Result{}
	vsched.HarnessSleep = false
	defer func() { vsched.HarnessSleep = true }()
	cfg.HB = true
	res.Out = vsched.Run(cfg, func() { w.main() })
	if res.Out.Hung {
		return res
	}
	for _, rc := range res.Out.Races {
		res.V = append(res.V, V{Kind: "data-race", Msg: "unordered conflicting accesses (happens-before over this schedule): " + rc.String(), Attrs: map[string]any{"race": rc.Key()}})
	}
	w.judge(res)
	return res
}

func (w *world) main() {
	sc := w.sc
	var cl doer
	var netClient *modbus.Client
	switch sc.Kind {
	case "tcp", "rtu":
		rt := 20 * time.Millisecond
		if sc.LongTimeout {
			rt = time.Hour
		}
		wt := time.Hour
		if sc.DeviceDelayMs > 0 {
			wt = 5 * time.Millisecond // with a slow device also a short write timeout: whatever is bounded by it must not start while queueing
		}
		conf := modbus.ClientConfig{ReadTimeout: rt, WriteTimeout: wt,
			DialContextFunc: func(ctx context.Context, address string) (net.Conn, error) {
				vsched.PointObj("dial", w)
				c := w.newConn(false)
				w.ev(Event{Conn: c.id, Op: "D"})
				return c, nil
			}}
		if sc.Hooks {
			conf.Hooks = hooks{w}
		}
		if sc.Kind == "tcp" {
			netClient = modbus.NewTCPClientWithConfig(conf)
		} else {
			netClient = modbus.NewRTUClientWithConfig(conf)
		}
		if err := netClient.Connect(context.Background(), "dev:502"); err != nil {
			panic(err)
		}
		cl = netClient
	case "serial", "serial-flusher":
		c := w.newConn(true)
		var port io.ReadWriteCloser = c
		if sc.Kind == "serial" {
			port = plainPort{c}
		}
		rt := 100 * time.Millisecond
		if sc.LongTimeout {
			rt = time.Hour
		}
		opts := []modbus.SerialClientOptionFunc{modbus.WithSerialReadTimeout(rt)}
		if sc.Hooks {
			opts = append(opts, modbus.WithSerialHooks(hooks{w}))
		}
		cl = modbus.NewSerialClient(port, opts...)
	default:
		panic("unknown kind " + sc.Kind)
	}
	for i := 0; i < sc.Callers; i++ {
		for k := 0; k < sc.Calls; k++ {
			rq, b := request(map[bool]string{true: "rtu", false: "tcp"}[w.rtu], i, k, sc.SameTarget)
			dr, err := spec.DecodeReq(b, w.rtu)
			if err != nil {
				panic(err)
			}
			w.calls = append(w.calls, &callRec{caller: i, k: k, req: rq, reqBytes: b, want: pristine.Clone().Handle(dr).Frame(w.rtu)})
		}
	}
	for i := 0; i < sc.Callers; i++ {
		i := i
		vsched.Spawn(fmt.Sprintf("caller%d", i), func() {
			for k := 0; k < sc.Calls; k++ {
				n := i*sc.Calls + k
				cr := w.calls[n]
				w.curCall[vsched.ThreadID()] = n
				func() {
					defer func() {
						if rec := recover(); rec != nil {
							cr.panicked = fmt.Sprint(rec)
						}
					}()
					cr.resp, cr.err = cl.Do(context.Background(), cr.req)
				}()
				cr.done = true
				delete(w.curCall, vsched.ThreadID())
			}
		}, true)
	}
	if sc.Close {
		vsched.Spawn("closer", func() { cl.Close() }, true)
	}
	if sc.Close2 {
		vsched.Spawn("closer2", func() { cl.Close() }, true)
	}
	if sc.Connect && netClient != nil {
		vsched.Spawn("connector", func() { netClient.Connect(context.Background(), "dev:502") }, true)
	}
}

func (w *world) judge(res *Result) {
	o := res.Out
	add := func(kind, msg string, attrs map[string]any) {
		if attrs == nil {
			attrs = map[string]any{}
		}
		attrs["kind_of_client"] = w.sc.Kind
		res.V = append(res.V, V{kind, msg, attrs})
	}
	if o.Crash != "" {
		add("panic", fmt.Sprintf("unrecovered panic in thread %s: %s", o.CrashIn, first(o.Crash)), nil)
		res.Summary = "crash"
		return
	}
	if o.Deadlock {
		add("deadlock", fmt.Sprintf("no thread can run; blocked: %v", o.Blocked), nil)
		res.Summary = "deadlock"
		return
	}
	if o.StepLimit {
		add("step-limit", "execution did not finish", nil)
		res.Summary = "step-limit"
		return
	}
	// 1. exchanges are contiguous on the wire
	first_, last := map[int]int{}, map[int]int{}
	connOf := map[int]map[int]bool{}
	for i, e := range w.log {
		if e.Call < 0 {
			continue
		}
		if _, ok := first_[e.Call]; !ok {
			first_[e.Call] = i
		}
		last[e.Call] = i
		if connOf[e.Call] == nil {
			connOf[e.Call] = map[int]bool{}
		}
		connOf[e.Call][e.Conn] = true
	}
	var order []string
	for i, e := range w.log {
		if e.Call >= 0 && first_[e.Call] == i {
			order = append(order, fmt.Sprint(e.Call))
		}
		if e.Op == "C" && e.Call < 0 {
			order = append(order, "C")
		}
		if e.Op == "D" && i > 0 {
			order = append(order, "D")
		}
	}
	res.Order = strings.Join(order, ",")
	for n, f := range first_ {
		for i := f; i <= last[n]; i++ {
			if e := w.log[i]; e.Call != n {
				what := "transport operation " + e.Op
				if e.Call >= 0 {
					what = fmt.Sprintf("transport operation %s of request call %d", e.Op, e.Call)
				} else if e.Op == "C" {
					what = "Close of the connection"
				} else if e.Op == "D" {
					what = "dial of a new connection"
				}
				add("exchange-interleaved", fmt.Sprintf("between the first and the last transport operation of request call %d (caller %d) the wire saw %s by another goroutine; wire log: %s", n, w.calls[n].caller, what, w.wire()),
					map[string]any{"intruder": e.Op})
				break
			}
		}
		if len(connOf[n]) > 1 {
			add("exchange-spans-connections", fmt.Sprintf("request call %d used %d different connections; wire log: %s", n, len(connOf[n]), w.wire()), nil)
		}
	}
	// 2. written frames are the callers' frames
	for _, e := range w.log {
		if e.Op == "W" && e.Call >= 0 && string(e.Data) != string(w.calls[e.Call].reqBytes) {
			add("foreign-frame-written", fmt.Sprintf("request call %d wrote %x, its request is %x", e.Call, e.Data, w.calls[e.Call].reqBytes), nil)
		}
	}
	// 3. every caller gets its own reply (or an error iff its connection had been closed before its exchange began)
	for n, cr := range w.calls {
		if cr.panicked != "" {
			add("panic", fmt.Sprintf("request call %d panicked: %s", n, cr.panicked), nil)
			continue
		}
		if !cr.done {
			add("call-never-returned", fmt.Sprintf("request call %d never returned", n), nil)
			continue
		}
		closedBefore := false
		if f, ok := first_[n]; ok {
			conn := w.log[f].Conn
			for i := 0; i < f; i++ {
				if w.log[i].Op == "C" && w.log[i].Conn == conn {
					closedBefore = true
				}
			}
		}
		isNil := cr.resp == nil
		if _, wrote := first_[n]; !wrote && cr.err == nil && !isNil {
			// "carried out one at a time": a call that reports success has performed its own exchange
			add("success-without-exchange", fmt.Sprintf("request call %d (caller %d) returned a response but never touched the transport; wire log: %s", n, cr.caller, w.wire()), nil)
			continue
		}
		switch {
		case closedBefore:
			if cr.err == nil || !isNil {
				add("success-on-closed-connection", fmt.Sprintf("request call %d returned (%v, %v) although its connection had been closed before it started", n, cr.resp, cr.err), nil)
			}
		case cr.err != nil:
			add("caller-got-error", fmt.Sprintf("request call %d (caller %d) returned error %q; nothing was closed before its exchange; wire log: %s", n, cr.caller, cr.err.Error(), w.wire()),
				map[string]any{"error": classify(cr.err)})
		case isNil:
			add("caller-got-nil", fmt.Sprintf("request call %d returned nil, nil", n), nil)
		default:
			if got := cr.resp.Bytes(); string(got) != string(cr.want) {
				add("caller-got-foreign-reply", fmt.Sprintf("request call %d (caller %d) received %x, the reply to its own request is %x; wire log: %s", n, cr.caller, got, cr.want, w.wire()), nil)
			}
		}
	}
	// 4. hooks are only ever called by the goroutine that owns the exchange, in W R.. P order per call
	if w.sc.Hooks {
		seq := map[int]string{}
		for _, h := range w.hookLog {
			if h.Call < 0 {
				add("hook-outside-call", "a client hook ran outside any request call", nil)
				continue
			}
			seq[h.Call] += h.Op[1:]
		}
		for n, s := range seq {
			cr := w.calls[n]
			if cr.err == nil && !(strings.HasPrefix(s, "W") && strings.HasSuffix(s, "P") && strings.Count(s, "W") == 1 && strings.Count(s, "P") == 1) {
				add("hook-sequence", fmt.Sprintf("hooks of successful request call %d ran as %q", n, s), nil)
			}
		}
	}
	res.Summary = "order=" + res.Order
	nerr := 0
	for _, cr := range w.calls {
		if cr.err != nil {
			nerr++
		}
	}
	res.Summary += fmt.Sprintf(" errors=%d", nerr)
}

func classify(err error) string {
	var ce *modbus.ClientError
	switch {
	case errors.Is(err, net.ErrClosed):
		return "closed"
	case errors.As(err, &ce):
		return "client-error"
	}
	return "other"
}

func (w *world) wire() string {
	var sb strings.Builder
	for i, e := range w.log {
		if i > 0 {
			sb.WriteByte(' ')
		}
		who := fmt.Sprintf("call%d", e.Call)
		if e.Call < 0 {
			who = fmt.Sprintf("t%d", e.Thread)
		}
		fmt.Fprintf(&sb, "%s:%s", who, e.Op)
		if e.Err != "" {
			fmt.Fprintf(&sb, "(%s)", e.Err)
		}
		if len(w.conns) > 1 {
			fmt.Fprintf(&sb, "@%d", e.Conn)
		}
	}
	return sb.String()
}

func first(s string) string {
	if i := strings.IndexByte(s, '\n'); i >= 0 {
		return s[:i]
	}
	return s
}
