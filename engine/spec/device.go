package spec

// Device is a conforming Modbus device with the full 16-bit address space in all four tables.
// It follows the state diagrams of §6.1–6.17: unsupported function → exception 01, quantity / value out of range
// or byte count mismatch → 03, address range leaving the table → 02, otherwise execute.
type Device struct {
	Holding  []uint16 // 65536
	Input    []uint16
	Coils    []bool
	Discrete []bool
	ServerID []byte
	Status   uint8
	Extra    []byte
}

// NewDevice builds a device whose tables are filled by image functions.
func NewDevice(reg func(table int, addr int) uint16, bit func(table int, addr int) bool) *Device {
	d := &Device{Holding: make([]uint16, 65536), Input: make([]uint16, 65536), Coils: make([]bool, 65536), Discrete: make([]bool, 65536),
		ServerID: []byte{0x42, 0x17}, Status: 0xFF, Extra: []byte{1, 2, 3}}
	for a := 0; a < 65536; a++ {
		d.Holding[a] = reg(3, a)
		d.Input[a] = reg(4, a)
		d.Coils[a] = bit(1, a)
		d.Discrete[a] = bit(2, a)
	}
	return d
}

// Clone returns an independent copy of the device (the writable tables are copied, the read-only ones shared).
func (d *Device) Clone() *Device {
	c := *d
	c.Holding = append([]uint16(nil), d.Holding...)
	c.Coils = append([]bool(nil), d.Coils...)
	return &c
}

func exc(r Req, code uint8) Resp {
	return Resp{FC: r.FC, Unit: r.Unit, TID: r.TID, Exc: true, ExCode: code, Count: -1}
}

// Handle answers one request.
func (d *Device) Handle(r Req) Resp {
	out := Resp{FC: r.FC, Unit: r.Unit, TID: r.TID, Count: -1}
	if !Supported(r.FC) {
		return exc(r, ExIllegalFunc)
	}
	if !r.Legal() {
		return exc(r, ExIllegalValue)
	}
	end := int(r.Addr) + int(r.Qty)
	switch r.FC {
	case FC1, FC2:
		if end > 65536 {
			return exc(r, ExIllegalAddress)
		}
		t := d.Coils
		if r.FC == FC2 {
			t = d.Discrete
		}
		out.Data = PackBits(t[r.Addr:end])
	case FC3, FC4:
		if end > 65536 {
			return exc(r, ExIllegalAddress)
		}
		t := d.Holding
		if r.FC == FC4 {
			t = d.Input
		}
		out.Data = regsWire(t[r.Addr:end])
	case FC5:
		d.Coils[r.Addr] = r.Value == CoilOn
		out.Addr, out.Value = r.Addr, r.Value
	case FC6:
		d.Holding[r.Addr] = r.Value
		out.Addr, out.Value = r.Addr, r.Value
	case FC15:
		if end > 65536 {
			return exc(r, ExIllegalAddress)
		}
		for i := 0; i < int(r.Qty); i++ {
			d.Coils[int(r.Addr)+i] = Bit(r.Data, i)
		}
		out.Addr, out.Value = r.Addr, r.Qty
	case FC16:
		if end > 65536 {
			return exc(r, ExIllegalAddress)
		}
		for i := 0; i < int(r.Qty); i++ {
			d.Holding[int(r.Addr)+i] = uint16(r.Data[2*i])<<8 | uint16(r.Data[2*i+1])
		}
		out.Addr, out.Value = r.Addr, r.Qty
	case FC17:
		out.ID, out.Status, out.Extra = d.ServerID, d.Status, d.Extra
	case FC23:
		wend := int(r.WAddr) + int(r.WQty)
		if end > 65536 || wend > 65536 {
			return exc(r, ExIllegalAddress)
		}
		// the write is performed before the read (§6.17)
		for i := 0; i < int(r.WQty); i++ {
			d.Holding[int(r.WAddr)+i] = uint16(r.Data[2*i])<<8 | uint16(r.Data[2*i+1])
		}
		out.Data = regsWire(d.Holding[r.Addr:end])
	}
	return out
}

func regsWire(regs []uint16) []byte {
	out := make([]byte, 2*len(regs))
	for i, v := range regs {
		out[2*i], out[2*i+1] = byte(v>>8), byte(v)
	}
	return out
}

// RegsWire exposes the big-endian wire encoding of a register slice.
func RegsWire(regs []uint16) []byte { return regsWire(regs) }

// Image functions used by checks: every (table, address) carries a different, position-revealing value.
func ImageIdentity(table, addr int) uint16 { return uint16(addr*2+1) ^ uint16(table)<<13 }
func ImageHash(table, addr int) uint16 {
	x := uint32(addr)*2654435761 + uint32(table)*40503
	x ^= x >> 15
	return uint16(x) | 0x0101 // never a NUL byte
}
func ImageText(table, addr int) uint16 {
	hi := byte('A' + (addr*7+table)%26)
	lo := byte('a' + (addr*11+table)%26)
	if addr%5 == 3 {
		lo = 0
	}
	if addr%7 == 6 {
		hi = 0
	}
	return uint16(hi)<<8 | uint16(lo)
}
func BitImage(table, addr int) bool {
	x := uint32(addr)*2246822519 + uint32(table)*3266489917
	x ^= x >> 13
	return x&4 != 0
}
