package spec

// CRC-16/MODBUS written the *other* way round from the implementation under test: the non-reflected polynomial
// 0x8005 is applied MSB-first to bit-reversed input bytes and the result is bit-reversed (catalogue parameters:
// width=16 poly=0x8005 init=0xffff refin=true refout=true xorout=0x0000 check=0x4b37).

func rev8(b byte) byte {
	var r byte
	for i := 0; i < 8; i++ {
		r = r<<1 | (b>>uint(i))&1
	}
	return r
}

func rev16(v uint16) uint16 {
	var r uint16
	for i := 0; i < 16; i++ {
		r = r<<1 | (v>>uint(i))&1
	}
	return r
}

// crcMSB advances the non-reflected register by one (already reflected) byte.
func crcMSB(reg uint16, b byte) uint16 {
	reg ^= uint16(b) << 8
	for i := 0; i < 8; i++ {
		if reg&0x8000 != 0 {
			reg = reg<<1 ^ 0x8005
		} else {
			reg <<= 1
		}
	}
	return reg
}

// CRC returns the Modbus CRC of data.
func CRC(data []byte) uint16 {
	reg := uint16(0xFFFF) // init is a palindrome, so reflected init == init
	for _, b := range data {
		reg = crcMSB(reg, rev8(b))
	}
	return rev16(reg)
}

// Step folds one byte into a CRC value expressed in the implementation's (reflected) representation.
func Step(crc uint16, b byte) uint16 {
	return rev16(crcMSB(rev16(crc), rev8(b)))
}

// SelfCheck validates the reference models against literal values quoted in the specifications.
func SelfCheck() error {
	if CRC([]byte("123456789")) != 0x4B37 {
		return errf("CRC check value: got %#04x", CRC([]byte("123456789")))
	}
	// MODBUS over Serial Line V1.02 appendix example-like frame: 01 04 02 FF FF -> B8 80 (CRC 0x80B8, low byte first).
	if c := CRC([]byte{0x01, 0x04, 0x02, 0xFF, 0xFF}); c != 0x80B8 {
		return errf("CRC frame example: got %#04x", c)
	}
	if c := CRC(nil); c != 0xFFFF {
		return errf("CRC empty: %#04x", c)
	}
	// Application protocol §6.1 example: read coils 20-38 -> request PDU 01 00 13 00 13
	if got := ReqPDU(Req{FC: FC1, Addr: 0x13, Qty: 0x13}); !eq(got, []byte{1, 0, 0x13, 0, 0x13}) {
		return errf("fc1 example %x", got)
	}
	// §6.3 read holding registers 108-110: 03 00 6B 00 03 ; response 03 06 02 2B 00 00 00 64
	if got := ReqPDU(Req{FC: FC3, Addr: 0x6B, Qty: 3}); !eq(got, []byte{3, 0, 0x6B, 0, 3}) {
		return errf("fc3 example %x", got)
	}
	if got := RespPDU(Resp{FC: FC3, Count: -1, Data: []byte{2, 0x2B, 0, 0, 0, 0x64}}); !eq(got, []byte{3, 6, 2, 0x2B, 0, 0, 0, 0x64}) {
		return errf("fc3 resp example %x", got)
	}
	// §6.5 write single coil 173 ON: 05 00 AC FF 00
	if got := ReqPDU(Req{FC: FC5, Addr: 0xAC, Value: CoilOn}); !eq(got, []byte{5, 0, 0xAC, 0xFF, 0}) {
		return errf("fc5 example %x", got)
	}
	// §6.11 write multiple coils: start 19 (0x13), 10 coils, data CD 01 : 0F 00 13 00 0A 02 CD 01
	bits := []bool{true, false, true, true, false, false, true, true, true, false}
	if got := ReqPDU(Req{FC: FC15, Addr: 0x13, Qty: 10, Data: PackBits(bits)}); !eq(got, []byte{0x0F, 0, 0x13, 0, 0x0A, 2, 0xCD, 0x01}) {
		return errf("fc15 example %x", got)
	}
	// §6.12 write multiple registers: start 1, 2 regs, 00 0A 01 02 : 10 00 01 00 02 04 00 0A 01 02
	if got := ReqPDU(Req{FC: FC16, Addr: 1, Qty: 2, Data: []byte{0, 0x0A, 1, 2}}); !eq(got, []byte{0x10, 0, 1, 0, 2, 4, 0, 0x0A, 1, 2}) {
		return errf("fc16 example %x", got)
	}
	// §6.17 read/write multiple: read 6 from 3, write 3 from 14: 17 00 03 00 06 00 0E 00 03 06 00 FF 00 FF 00 FF
	if got := ReqPDU(Req{FC: FC23, Addr: 3, Qty: 6, WAddr: 14, WQty: 3, Data: []byte{0, 0xFF, 0, 0xFF, 0, 0xFF}}); !eq(got,
		[]byte{0x17, 0, 3, 0, 6, 0, 0x0E, 0, 3, 6, 0, 0xFF, 0, 0xFF, 0, 0xFF}) {
		return errf("fc23 example %x", got)
	}
	// MBAP example (Messaging on TCP/IP implementation guide): tid 0x1501? use structural check instead.
	if got := TCP(0x8180, 0x10, []byte{1, 0, 0x6B, 0, 3}); !eq(got, []byte{0x81, 0x80, 0, 0, 0, 6, 0x10, 1, 0, 0x6B, 0, 3}) {
		return errf("mbap %x", got)
	}
	// register view: documented table for 0xAE415652
	for _, c := range []struct {
		wire  []byte
		order uint8
	}{
		{[]byte{0xAE, 0x41, 0x56, 0x52}, OrdBE | OrdHighWordFirst},
		{[]byte{0x56, 0x52, 0xAE, 0x41}, OrdBE | OrdLowWordFirst},
		{[]byte{0x41, 0xAE, 0x52, 0x56}, OrdLE | OrdLowWordFirst},
		{[]byte{0x52, 0x56, 0x41, 0xAE}, OrdLE | OrdHighWordFirst},
	} {
		if v := U32(c.wire, c.order); v != 0xAE415652 {
			return errf("regview order %d: %#x", c.order, v)
		}
	}
	return nil
}

func eq(a, b []byte) bool {
	if len(a) != len(b) {
		return false
	}
	for i := range a {
		if a[i] != b[i] {
			return false
		}
	}
	return true
}

type specErr string

func (e specErr) Error() string { return string(e) }

func errf(f string, a ...any) error { return specErr("spec self-check: " + sprintf(f, a...)) }
