// Package spec holds the reference models the oracles compare against. It is written from the MODBUS Application
// Protocol Specification V1.1b3 and MODBUS over Serial Line V1.02 and never calls the library under test.
package spec

import (
	"errors"
	"fmt"
)

// Function codes.
const (
	FC1  = 1
	FC2  = 2
	FC3  = 3
	FC4  = 4
	FC5  = 5
	FC6  = 6
	FC15 = 15
	FC16 = 16
	FC17 = 17
	FC23 = 23
)

// AllFC lists the ten supported function codes.
var AllFC = []uint8{FC1, FC2, FC3, FC4, FC5, FC6, FC15, FC16, FC17, FC23}

func Supported(fc uint8) bool {
	for _, f := range AllFC {
		if f == fc {
			return true
		}
	}
	return false
}

// Limits from the specification (§6.1–6.17).
const (
	MaxReadBits      = 2000 // 0x7D0
	MaxReadRegs      = 125  // 0x7D
	MaxWriteBits     = 1968 // 0x7B0
	MaxWriteRegs     = 123  // 0x7B
	MaxRWReadRegs    = 125  // 0x7D
	MaxRWWriteRegs   = 121  // 0x79
	MaxADUTCP        = 260
	MaxADURTU        = 256
	MaxPDU           = 253
	CoilOn           = 0xFF00
	CoilOff          = 0x0000
	ExIllegalFunc    = 1
	ExIllegalAddress = 2
	ExIllegalValue   = 3
)

// Req is a request in abstract form.
type Req struct {
	FC    uint8
	Unit  uint8
	TID   uint16 // TCP only
	Addr  uint16 // start / output / register address (read start for FC23)
	Qty   uint16 // quantity (FC1-4, 15, 16; read quantity for FC23)
	Value uint16 // FC5 / FC6 value
	WAddr uint16 // FC23 write start
	WQty  uint16 // FC23 write quantity
	Data  []byte // FC15 / FC16 / FC23 payload
}

func be16(v uint16) []byte { return []byte{byte(v >> 8), byte(v)} }

// ReqPDU lays out the request PDU (function code first). No limit is enforced here; byte count fields are
// what the specification prescribes: the payload length.
func ReqPDU(r Req) []byte {
	p := []byte{r.FC}
	switch r.FC {
	case FC1, FC2, FC3, FC4:
		p = append(p, be16(r.Addr)...)
		p = append(p, be16(r.Qty)...)
	case FC5, FC6:
		p = append(p, be16(r.Addr)...)
		p = append(p, be16(r.Value)...)
	case FC15, FC16:
		p = append(p, be16(r.Addr)...)
		p = append(p, be16(r.Qty)...)
		p = append(p, byte(len(r.Data)))
		p = append(p, r.Data...)
	case FC17:
	case FC23:
		p = append(p, be16(r.Addr)...)
		p = append(p, be16(r.Qty)...)
		p = append(p, be16(r.WAddr)...)
		p = append(p, be16(r.WQty)...)
		p = append(p, byte(len(r.Data)))
		p = append(p, r.Data...)
	default:
		panic("spec.ReqPDU: unsupported fc")
	}
	return p
}

// TCP wraps unit+pdu in an MBAP header: tid, protocol 0, length = bytes following the length field.
func TCP(tid uint16, unit uint8, pdu []byte) []byte {
	n := len(pdu) + 1
	out := make([]byte, 0, 7+len(pdu))
	out = append(out, byte(tid>>8), byte(tid), 0, 0, byte(n>>8), byte(n), unit)
	return append(out, pdu...)
}

// RTU wraps unit+pdu and appends the CRC low byte first.
func RTU(unit uint8, pdu []byte) []byte {
	out := make([]byte, 0, 3+len(pdu))
	out = append(out, unit)
	out = append(out, pdu...)
	c := CRC(out)
	return append(out, byte(c), byte(c>>8))
}

// Frame encodes the request ADU.
func (r Req) Frame(rtu bool) []byte {
	if rtu {
		return RTU(r.Unit, ReqPDU(r))
	}
	return TCP(r.TID, r.Unit, ReqPDU(r))
}

// Legal reports whether the request is legal under the specification (quantity limits, byte counts, coil value)
// and fits the ADU limits.
func (r Req) Legal() bool {
	switch r.FC {
	case FC1, FC2:
		return r.Qty >= 1 && r.Qty <= MaxReadBits
	case FC3, FC4:
		return r.Qty >= 1 && r.Qty <= MaxReadRegs
	case FC5:
		return r.Value == CoilOn || r.Value == CoilOff
	case FC6, FC17:
		return true
	case FC15:
		return r.Qty >= 1 && r.Qty <= MaxWriteBits && len(r.Data) == (int(r.Qty)+7)/8
	case FC16:
		return r.Qty >= 1 && r.Qty <= MaxWriteRegs && len(r.Data) == 2*int(r.Qty)
	case FC23:
		return r.Qty >= 1 && r.Qty <= MaxRWReadRegs && r.WQty >= 1 && r.WQty <= MaxRWWriteRegs && len(r.Data) == 2*int(r.WQty)
	}
	return false
}

var ErrShort = errors.New("spec: frame too short")

// DecodeReqPDU is the specification's view of a request PDU (unit supplied by the framing layer).
// It checks structure only (lengths/byte counts), not quantity limits; use Legal for those.
func DecodeReqPDU(p []byte) (Req, error) {
	if len(p) < 1 {
		return Req{}, ErrShort
	}
	r := Req{FC: p[0]}
	u16 := func(i int) uint16 { return uint16(p[i])<<8 | uint16(p[i+1]) }
	switch r.FC {
	case FC1, FC2, FC3, FC4:
		if len(p) != 5 {
			return r, fmt.Errorf("spec: fc%d pdu length %d", r.FC, len(p))
		}
		r.Addr, r.Qty = u16(1), u16(3)
	case FC5, FC6:
		if len(p) != 5 {
			return r, fmt.Errorf("spec: fc%d pdu length %d", r.FC, len(p))
		}
		r.Addr, r.Value = u16(1), u16(3)
	case FC15, FC16:
		if len(p) < 6 {
			return r, ErrShort
		}
		r.Addr, r.Qty = u16(1), u16(3)
		if int(p[5]) != len(p)-6 {
			return r, fmt.Errorf("spec: byte count %d vs %d", p[5], len(p)-6)
		}
		r.Data = append([]byte(nil), p[6:]...)
	case FC17:
		if len(p) != 1 {
			return r, fmt.Errorf("spec: fc17 pdu length %d", len(p))
		}
	case FC23:
		if len(p) < 10 {
			return r, ErrShort
		}
		r.Addr, r.Qty, r.WAddr, r.WQty = u16(1), u16(3), u16(5), u16(7)
		if int(p[9]) != len(p)-10 {
			return r, fmt.Errorf("spec: byte count %d vs %d", p[9], len(p)-10)
		}
		r.Data = append([]byte(nil), p[10:]...)
	default:
		return r, fmt.Errorf("spec: unsupported fc %d", r.FC)
	}
	return r, nil
}

// SplitTCP validates the MBAP header and returns tid, unit, pdu.
func SplitTCP(b []byte) (tid uint16, unit uint8, pdu []byte, err error) {
	if len(b) < 8 {
		return 0, 0, nil, ErrShort
	}
	if b[2] != 0 || b[3] != 0 {
		return 0, 0, nil, errors.New("spec: protocol id")
	}
	n := int(b[4])<<8 | int(b[5])
	if n != len(b)-6 {
		return 0, 0, nil, fmt.Errorf("spec: mbap length %d vs %d", n, len(b)-6)
	}
	return uint16(b[0])<<8 | uint16(b[1]), b[6], b[7:], nil
}

// SplitRTU validates the CRC and returns unit, pdu.
func SplitRTU(b []byte) (unit uint8, pdu []byte, err error) {
	if len(b) < 4 {
		return 0, nil, ErrShort
	}
	c := CRC(b[:len(b)-2])
	if b[len(b)-2] != byte(c) || b[len(b)-1] != byte(c>>8) {
		return 0, nil, errors.New("spec: crc")
	}
	return b[0], b[1 : len(b)-2], nil
}

// DecodeReq decodes a request ADU.
func DecodeReq(b []byte, rtu bool) (Req, error) {
	var r Req
	if rtu {
		u, pdu, err := SplitRTU(b)
		if err != nil {
			return r, err
		}
		r, err = DecodeReqPDU(pdu)
		r.Unit = u
		return r, err
	}
	tid, u, pdu, err := SplitTCP(b)
	if err != nil {
		return r, err
	}
	r, err = DecodeReqPDU(pdu)
	r.Unit, r.TID = u, tid
	return r, err
}

// Resp is a response in abstract form.
type Resp struct {
	FC     uint8
	Unit   uint8
	TID    uint16
	Addr   uint16 // FC5/6/15/16 echo
	Value  uint16 // FC5/6 echo value; FC15/16 quantity
	Data   []byte // FC1-4, 23 payload (byte count = len)
	Count  int    // declared byte count override; -1 = len(Data)
	ID     []byte // FC17 server id
	Status uint8  // FC17 run indicator
	Extra  []byte // FC17 additional data
	ExCode uint8  // exception code when Exc
	Exc    bool
}

// RespPDU lays out a response PDU. For FC17 the layout documented in packet/readserveridresponse.go is the
// definition (count = server id length; status; additional data), see DESIGN §2.5.
func RespPDU(r Resp) []byte {
	if r.Exc {
		return []byte{r.FC | 0x80, r.ExCode}
	}
	p := []byte{r.FC}
	switch r.FC {
	case FC1, FC2, FC3, FC4, FC23:
		c := len(r.Data)
		if r.Count >= 0 {
			c = r.Count
		}
		p = append(p, byte(c))
		p = append(p, r.Data...)
	case FC5, FC6, FC15, FC16:
		p = append(p, be16(r.Addr)...)
		p = append(p, be16(r.Value)...)
	case FC17:
		p = append(p, byte(len(r.ID)))
		p = append(p, r.ID...)
		p = append(p, r.Status)
		p = append(p, r.Extra...)
	default:
		panic("spec.RespPDU: unsupported fc")
	}
	return p
}

func (r Resp) Frame(rtu bool) []byte {
	if rtu {
		return RTU(r.Unit, RespPDU(r))
	}
	return TCP(r.TID, r.Unit, RespPDU(r))
}

// DecodeRespPDU decodes a well-formed response PDU of a supported function (or an exception).
func DecodeRespPDU(p []byte) (Resp, error) {
	if len(p) < 2 {
		return Resp{}, ErrShort
	}
	r := Resp{FC: p[0], Count: -1}
	if p[0]&0x80 != 0 {
		if len(p) != 2 {
			return r, errors.New("spec: exception pdu length")
		}
		return Resp{FC: p[0] & 0x7F, Exc: true, ExCode: p[1], Count: -1}, nil
	}
	u16 := func(i int) uint16 { return uint16(p[i])<<8 | uint16(p[i+1]) }
	switch r.FC {
	case FC1, FC2, FC3, FC4, FC23:
		if int(p[1]) != len(p)-2 {
			return r, fmt.Errorf("spec: byte count %d vs %d", p[1], len(p)-2)
		}
		r.Data = append([]byte(nil), p[2:]...)
	case FC5, FC6, FC15, FC16:
		if len(p) != 5 {
			return r, errors.New("spec: echo pdu length")
		}
		r.Addr, r.Value = u16(1), u16(3)
	case FC17:
		n := int(p[1])
		if len(p) < 2+n+1 {
			return r, ErrShort
		}
		r.ID = append([]byte(nil), p[2:2+n]...)
		r.Status = p[2+n]
		r.Extra = append([]byte(nil), p[3+n:]...)
	default:
		return r, fmt.Errorf("spec: unsupported fc %d", r.FC)
	}
	return r, nil
}

func DecodeResp(b []byte, rtu bool) (Resp, error) {
	if rtu {
		u, pdu, err := SplitRTU(b)
		if err != nil {
			return Resp{}, err
		}
		r, err := DecodeRespPDU(pdu)
		r.Unit = u
		return r, err
	}
	tid, u, pdu, err := SplitTCP(b)
	if err != nil {
		return Resp{}, err
	}
	r, err := DecodeRespPDU(pdu)
	r.Unit, r.TID = u, tid
	return r, err
}

// PackBits packs booleans LSB first (coil i -> bit i%8 of byte i/8), as §6.11 prescribes.
func PackBits(bits []bool) []byte {
	out := make([]byte, (len(bits)+7)/8)
	for i, b := range bits {
		if b {
			out[i>>3] |= 1 << (uint(i) & 7)
		}
	}
	return out
}

// Bit returns coil i of an LSB-first packed payload.
func Bit(data []byte, i int) bool { return data[i>>3]&(1<<(uint(i)&7)) != 0 }
