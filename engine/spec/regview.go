package spec

import (
	"fmt"
	"math"
)

// Byte/word order values, as named by the library's documentation (packet/registers.go doc comment):
//
//	| wire bytes of 0xAE415652 | name                              | value |
//	| AE41 5652                | big endian (high word first)      | 1|8   |
//	| 5652 AE41                | big endian (low word first)       | 1|4   |
//	| 41AE 5256                | little endian (low word first)    | 2|4   |
//	| 5256 41AE                | little endian (high word first)   | 2|8   |
//
// plain BigEndian (1) / LittleEndian (2) carry no word flag and mean "words in wire order" i.e. high word first.
const (
	OrdBE            = 1
	OrdLE            = 2
	OrdLowWordFirst  = 4
	OrdHighWordFirst = 8
)

// DocumentedOrders are the non-zero order values with a documented meaning.
var DocumentedOrders = []uint8{OrdBE, OrdLE, OrdBE | OrdLowWordFirst, OrdLE | OrdLowWordFirst, OrdBE | OrdHighWordFirst, OrdLE | OrdHighWordFirst}

// DefaultOrder is what NewRegisters documents as its default.
const DefaultOrder = OrdBE | OrdHighWordFirst

func sprintf(f string, a ...any) string { return fmt.Sprintf(f, a...) }

// significance tables: sig[i] = which byte of the value (0 = least significant) wire byte i carries.
var sig32 = map[uint8][4]int{
	OrdBE:                    {3, 2, 1, 0},
	OrdBE | OrdHighWordFirst: {3, 2, 1, 0},
	OrdBE | OrdLowWordFirst:  {1, 0, 3, 2},
	OrdLE | OrdLowWordFirst:  {2, 3, 0, 1},
	OrdLE:                    {0, 1, 2, 3},
	OrdLE | OrdHighWordFirst: {0, 1, 2, 3},
}

var sig64 = map[uint8][8]int{
	OrdBE:                    {7, 6, 5, 4, 3, 2, 1, 0},
	OrdBE | OrdHighWordFirst: {7, 6, 5, 4, 3, 2, 1, 0},
	OrdBE | OrdLowWordFirst:  {1, 0, 3, 2, 5, 4, 7, 6},
	OrdLE | OrdLowWordFirst:  {6, 7, 4, 5, 2, 3, 0, 1},
	OrdLE:                    {0, 1, 2, 3, 4, 5, 6, 7},
	OrdLE | OrdHighWordFirst: {0, 1, 2, 3, 4, 5, 6, 7},
}

// U16 decodes one register; only endianness matters.
func U16(w []byte, order uint8) uint16 {
	if order&OrdLE != 0 {
		return uint16(w[1])<<8 | uint16(w[0])
	}
	return uint16(w[0])<<8 | uint16(w[1])
}

func U32(w []byte, order uint8) uint32 {
	t, ok := sig32[order]
	if !ok {
		panic(sprintf("spec: undocumented order %d", order))
	}
	var v uint32
	for i := 0; i < 4; i++ {
		v |= uint32(w[i]) << (8 * uint(t[i]))
	}
	return v
}

func U64(w []byte, order uint8) uint64 {
	t, ok := sig64[order]
	if !ok {
		panic(sprintf("spec: undocumented order %d", order))
	}
	var v uint64
	for i := 0; i < 8; i++ {
		v |= uint64(w[i]) << (8 * uint(t[i]))
	}
	return v
}

func F32(w []byte, order uint8) uint32 { return U32(w, order) } // compared by bit pattern
func F64(w []byte, order uint8) uint64 { return U64(w, order) }

var _ = math.Float32bits

// Str decodes a string of `length` characters from ceil(length/2) registers of wire bytes using the library's
// documented/pinned convention (TestRegisters_string): with a big-endian order the two characters of each
// register are swapped; the first NUL terminates; every byte becomes the rune with that code point.
func Str(w []byte, length int, order uint8) string {
	chars := make([]byte, 0, length+1)
	for i := 0; i+1 < len(w); i += 2 {
		if order&OrdBE != 0 {
			chars = append(chars, w[i+1], w[i])
		} else {
			chars = append(chars, w[i], w[i+1])
		}
	}
	var rs []rune
	for _, c := range chars[:length] {
		if c == 0 {
			break
		}
		rs = append(rs, rune(c))
	}
	return string(rs)
}

// StrRegs is the number of registers a string of the given length occupies.
func StrRegs(length int) int { return (length + 1) / 2 }

// Window is a register response window [Start, Start+len(Wire)/2) in the 16-bit address space.
type Window struct {
	Start int
	Wire  []byte
}

// Span returns the wire bytes of n registers at addr, ok=false unless all of them lie inside the window.
func (w Window) Span(addr, n int) ([]byte, bool) {
	cnt := len(w.Wire) / 2
	if n < 1 || addr < w.Start || addr+n > w.Start+cnt {
		return nil, false
	}
	o := (addr - w.Start) * 2
	return w.Wire[o : o+2*n], true
}

// RegBit: bit b (0 = least significant) of the big-endian register value.
func RegBit(w []byte, b int) bool {
	v := uint16(w[0])<<8 | uint16(w[1])
	return v&(1<<uint(b)) != 0
}
