// C09 — legal requests survive encode -> parse unchanged; illegal ones are refused.
package main

import (
	"bytes"
	"encoding/json"
	"fmt"
	"runtime"
	"sync"

	"github.com/aldas/go-modbus-client/packet"
	"verif/ev"
	"verif/lib"
	"verif/spec"
)

const prop = "C09"

type Case struct {
	Legal   bool   `json:"legal"`
	FC      uint8  `json:"fc"`
	RTU     bool   `json:"rtu"`
	Unit    uint8  `json:"unit"`
	TID     uint16 `json:"tid"`
	Addr    uint16 `json:"addr"`
	Qty     uint16 `json:"qty"`
	Value   uint16 `json:"value"`
	WAddr   uint16 `json:"waddr"`
	WQty    uint16 `json:"wqty"`
	N       int    `json:"n"` // payload bytes
	Pattern string `json:"pattern"`
	K       int    `json:"k"`
}

type local struct{ evals, nontrivial, ctorRefused int64 }

func (c Case) req() spec.Req {
	r := spec.Req{FC: c.FC, Unit: c.Unit, TID: c.TID, Addr: c.Addr, Qty: c.Qty, Value: c.Value, WAddr: c.WAddr, WQty: c.WQty}
	switch c.FC {
	case 15, 16, 23:
		r.Data = lib.Pattern(c.Pattern, c.N, c.K)
		if c.FC == 15 && c.Legal && c.Qty%8 != 0 { // unused high bits of the last byte are zero in a library-encoded frame
			r.Data[len(r.Data)-1] &= byte(1<<(c.Qty%8)) - 1
		}
	}
	return r
}

type entry struct {
	name string
	cut  bool // feed the frame without its CRC trailer
	f    func([]byte) (any, error)
}

func entries(fc uint8, rtu bool) []entry {
	var out []entry
	p := lib.FuncParser(fc, rtu, true)
	if rtu {
		out = append(out,
			entry{"ParseRTURequestWithCRC", false, lib.ByName("ParseRTURequestWithCRC").F},
			entry{"ParseRTURequest", false, lib.ByName("ParseRTURequest").F},
			entry{p.Name, false, p.F},
			entry{p.Name + "(no crc)", true, p.F})
	} else {
		out = append(out, entry{"ParseTCPRequest", false, lib.ByName("ParseTCPRequest").F}, entry{p.Name, false, p.F})
	}
	return out
}

func decoy(c Case, r spec.Req) {
	defer func() { recover() }()
	d := r
	d.Unit, d.TID, d.Addr = r.Unit^0x55, r.TID^0xFFFF, r.Addr^0x0F0F
	switch c.FC {
	case 15:
		d.Qty, d.Data = 40, []byte{0xA5, 0x5A, 0xA5, 0x5A, 0xA5}
	case 16:
		d.Qty, d.Data = 3, []byte{0xA5, 0x5A, 0xA5, 0x5A, 0xA5, 0x5A}
	case 23:
		d.Qty, d.WQty, d.Data = 2, 3, []byte{0xA5, 0x5A, 0xA5, 0x5A, 0xA5, 0x5A}
	case 6:
		d.Value = 0xA55A
	default:
		d.Qty = 1
	}
	if q, err := lib.NewRequest(d, c.RTU); err == nil && !lib.IsNil(q) {
		_ = q.Bytes()
	}
	if c.RTU {
		// and frames that are REFUSED for their CRC, shorter than any request, go through the CRC-verifying dispatcher
		// first: whatever a refusal leaves behind must not count against the next frame
		p := lib.ByName("ParseRTURequestWithCRC").F
		_, _ = p([]byte{r.Unit, 3, 0xDE, 0xAD})
		_, _ = p([]byte{r.Unit ^ 1, 6, 0, 1, 0xBE, 0xEF})
	}
}

func eval(c Case, res *ev.Result, lc *local) {
	lc.evals++
	r := c.req()
	framing := "tcp"
	if c.RTU {
		framing = "rtu"
	}
	var frame []byte
	var orig packet.Request
	if c.Legal {
		if !r.Legal() {
			panic(fmt.Sprintf("harness: case marked legal is not: %+v", c))
		}
		q, err := lib.NewRequest(r, c.RTU)
		if err != nil || lib.IsNil(q) {
			// constructor refuses a legal request (e.g. FC23 read quantity 125): encode through a struct literal instead
			q = literal(r, c.RTU)
			if q == nil {
				lc.ctorRefused++
				return
			}
		}
		orig = q
		frame = q.Bytes()
		// from a non-initial state: another request of the same kind is serialised before this frame is parsed (an
		// encoder that hands out a view into shared / pooled storage shows here)
		decoy(c, r)
		if !bytes.Equal(frame, r.Frame(c.RTU)) {
			// encoder disagrees with the specification: C01's business; the round trip is still checked on the library's bytes
			res.Add("encoder_disagrees_with_spec", 1)
		}
	} else {
		if r.Legal() {
			panic(fmt.Sprintf("harness: case marked illegal is legal: %+v", c))
		}
		frame = r.Frame(c.RTU)
	}
	lc.nontrivial++
	for _, e := range entries(c.FC, c.RTU) {
		in := append([]byte(nil), frame...)
		if e.cut {
			in = in[:len(in)-2]
		}
		attrs := map[string]any{"fc": int(c.FC), "framing": framing, "entry": e.name}
		var v any
		var err error
		panicked := false
		func() {
			defer func() {
				if rec := recover(); rec != nil {
					panicked = true
					res.Violate(ev.Violation{Check: "req", Kind: "panic", Attrs: attrs, Msg: fmt.Sprintf("%s panicked on %s: %v", e.name, ev.Hex(in), rec), Case: c})
				}
			}()
			v, err = e.f(in)
		}()
		if panicked {
			continue
		}
		if c.Legal {
			if err != nil || lib.IsNil(v) {
				a := map[string]any{"qty": int(c.Qty)}
				for k, x := range attrs {
					a[k] = x
				}
				delete(a, "entry")
				a["_entry"] = e.name
				res.Violate(ev.Violation{Check: "req", Kind: "rejects-legal", Attrs: classQty(a, c), Msg: fmt.Sprintf("%s(%s) = (%v, %v) for a legal request %+v", e.name, ev.Hex(in), v, err, c), Case: c})
				continue
			}
			if !lib.Same(v, orig) {
				res.Violate(ev.Violation{Check: "req", Kind: "decoded-differs", Attrs: attrs, Msg: fmt.Sprintf("%s(%s) = %+v, original %+v", e.name, ev.Hex(in), v, orig), Case: c})
				continue
			}
			if got := v.(interface{ Bytes() []byte }).Bytes(); !bytes.Equal(got, frame) {
				res.Violate(ev.Violation{Check: "req", Kind: "reencode-differs", Attrs: attrs, Msg: fmt.Sprintf("%s: re-encoded %s != %s", e.name, ev.Hex(got), ev.Hex(frame)), Case: c})
			}
		} else {
			if err == nil || !lib.IsNil(v) {
				res.Violate(ev.Violation{Check: "req", Kind: "accepts-illegal", Attrs: attrs, Msg: fmt.Sprintf("%s(%s) = (%+v, %v) for an illegal request %+v", e.name, ev.Hex(in), v, err, c), Case: c})
			}
		}
	}
}

// classQty: the quantity is part of the signature as a class (so one known finding can name an interval) while the
// exact value is kept for the predicate under "qty".
func classQty(a map[string]any, c Case) map[string]any {
	q := int(c.Qty)
	delete(a, "qty")
	a["_qty"] = q
	switch c.FC {
	case 1, 2:
		switch {
		case q >= 126 && q <= 2000:
			a["qty_class"] = "126..2000"
		default:
			a["qty_class"] = "1..125"
		}
	default:
		a["qty_class"] = "legal"
	}
	return a
}

// literal builds a request value directly (bypassing the constructor) for legal requests the constructor refuses.
func literal(r spec.Req, rtu bool) packet.Request {
	if r.FC != 23 {
		return nil
	}
	body := packet.ReadWriteMultipleRegistersRequest{UnitID: r.Unit, ReadStartAddress: r.Addr, ReadQuantity: r.Qty, WriteStartAddress: r.WAddr, WriteQuantity: r.WQty, WriteData: r.Data}
	if rtu {
		return &packet.ReadWriteMultipleRegistersRequestRTU{ReadWriteMultipleRegistersRequest: body}
	}
	return &packet.ReadWriteMultipleRegistersRequestTCP{MBAPHeader: packet.MBAPHeader{TransactionID: r.TID}, ReadWriteMultipleRegistersRequest: body}
}

func run(tier string, shard, nsh int, res *ev.Result) {
	if err := spec.SelfCheck(); err != nil {
		panic(err)
	}
	thorough := tier == "thorough"
	var jobs []func(lc *local)
	add := func(f func(lc *local)) { jobs = append(jobs, f) }
	units := make([]uint8, 256)
	for i := range units {
		units[i] = uint8(i)
	}
	for _, rtu := range []bool{false, true} {
		rtu := rtu
		for _, fc := range []uint8{1, 2, 3, 4} {
			fc := fc
			max := 125
			if fc <= 2 {
				max = 2000
			}
			add(func(lc *local) {
				for q := 0; q < 65536; q++ {
					legal := q >= 1 && q <= max
					as := []uint16{0, 0x6B, 65535}
					us := []uint8{0, 1, 255}
					if thorough || legal {
						as = lib.B16
					}
					if thorough {
						us = lib.B8
					}
					for _, a := range as {
						for _, un := range us {
							eval(Case{Legal: legal, FC: fc, RTU: rtu, Unit: un, TID: a ^ 0x1357, Addr: a, Qty: uint16(q)}, res, lc)
						}
					}
				}
				for _, un := range units {
					for _, tid := range lib.B16 {
						eval(Case{Legal: true, FC: fc, RTU: rtu, Unit: un, TID: tid, Addr: tid, Qty: 1}, res, lc)
						eval(Case{Legal: true, FC: fc, RTU: rtu, Unit: un, TID: tid, Addr: tid, Qty: uint16(max)}, res, lc)
					}
				}
			})
		}
		add(func(lc *local) { // FC5: every value
			for v := 0; v < 65536; v++ {
				legal := v == spec.CoilOn || v == spec.CoilOff
				for _, a := range []uint16{0, 0xAC, 65535} {
					eval(Case{Legal: legal, FC: 5, RTU: rtu, Unit: 5, TID: 0x0505, Addr: a, Value: uint16(v)}, res, lc)
				}
			}
			for _, un := range units {
				for _, a := range lib.B16 {
					eval(Case{Legal: true, FC: 5, RTU: rtu, Unit: un, TID: a, Addr: a, Value: spec.CoilOn}, res, lc)
					eval(Case{Legal: true, FC: 5, RTU: rtu, Unit: un, TID: a, Addr: a, Value: spec.CoilOff}, res, lc)
					eval(Case{Legal: true, FC: 17, RTU: rtu, Unit: un, TID: a}, res, lc)
				}
			}
		})
		add(func(lc *local) { // FC6: every value
			for v := 0; v < 65536; v++ {
				for _, a := range []uint16{0, 1, 65535} {
					eval(Case{Legal: true, FC: 6, RTU: rtu, Unit: 6, TID: 0x0606, Addr: a, Value: uint16(v)}, res, lc)
				}
			}
			for _, un := range units {
				for _, a := range lib.B16 {
					eval(Case{Legal: true, FC: 6, RTU: rtu, Unit: un, TID: a, Addr: a, Value: a ^ 0xFFFF}, res, lc)
				}
			}
		})
		add(func(lc *local) { // FC15 legal: every count 1..1968 ; illegal: every other quantity
			for q := 1; q <= spec.MaxWriteBits; q++ {
				n := (q + 7) / 8
				for _, p := range []string{"pos", "ones", "zeros"} {
					for _, a := range []uint16{0, 0x13, 65535} {
						eval(Case{Legal: true, FC: 15, RTU: rtu, Unit: 7, TID: 0x0F0F, Addr: a, Qty: uint16(q), N: n, Pattern: p}, res, lc)
					}
				}
				eval(Case{Legal: true, FC: 15, RTU: rtu, Unit: 7, TID: 0x0F0F, Addr: 1, Qty: uint16(q), N: n, Pattern: "onehot", K: q - 1}, res, lc)
				eval(Case{Legal: true, FC: 15, RTU: rtu, Unit: 7, TID: 0x0F0F, Addr: 1, Qty: uint16(q), N: n, Pattern: "onehot", K: 0}, res, lc)
			}
			for q := 0; q < 65536; q++ {
				if q >= 1 && q <= spec.MaxWriteBits {
					continue
				}
				n := (q + 7) / 8
				if n > 255 {
					n = 246
				}
				eval(Case{Legal: false, FC: 15, RTU: rtu, Unit: 7, TID: 0x0F0F, Addr: 0x13, Qty: uint16(q), N: n, Pattern: "pos"}, res, lc)
			}
		})
		add(func(lc *local) { // FC16
			for q := 1; q <= spec.MaxWriteRegs; q++ {
				for _, p := range []string{"pos", "ones", "zeros"} {
					for _, a := range lib.B16 {
						eval(Case{Legal: true, FC: 16, RTU: rtu, Unit: 8, TID: 0x1010, Addr: a, Qty: uint16(q), N: 2 * q, Pattern: p}, res, lc)
					}
				}
			}
			for q := 0; q < 65536; q++ {
				if q >= 1 && q <= spec.MaxWriteRegs {
					continue
				}
				n := 2 * q
				if n > 255 {
					n = 246
				}
				eval(Case{Legal: false, FC: 16, RTU: rtu, Unit: 8, TID: 0x1010, Addr: 1, Qty: uint16(q), N: n, Pattern: "pos"}, res, lc)
			}
		})
		add(func(lc *local) { // data values (not positions): every 16-bit value as register content / as a 16-coil pattern
			for v := 0; v < 65536; v++ {
				eval(Case{Legal: true, FC: 16, RTU: rtu, Unit: 8, TID: 0x1010, Addr: 0x20, Qty: 1, N: 2, Pattern: "word", K: v}, res, lc)
				eval(Case{Legal: true, FC: 15, RTU: rtu, Unit: 7, TID: 0x0F0F, Addr: 0x13, Qty: 16, N: 2, Pattern: "word", K: v}, res, lc)
				if v%32 == 0 || v < 300 || v > 65200 {
					eval(Case{Legal: true, FC: 16, RTU: rtu, Unit: 8, TID: 0x1010, Addr: 0x20, Qty: 3, N: 6, Pattern: "word", K: v}, res, lc)
					eval(Case{Legal: true, FC: 23, RTU: rtu, Unit: 10, TID: 0x1717, Addr: 3, Qty: 2, WAddr: 14, WQty: 2, N: 4, Pattern: "word", K: v}, res, lc)
				}
			}
		})
		add(func(lc *local) { // FC23 legal product read 1..125 x write 1..121
			for rq := 1; rq <= spec.MaxRWReadRegs; rq++ {
				ws := []int{1, 2, 60, 120, 121}
				if thorough {
					ws = ws[:0]
					for w := 1; w <= spec.MaxRWWriteRegs; w++ {
						ws = append(ws, w)
					}
				}
				for _, wq := range ws {
					eval(Case{Legal: true, FC: 23, RTU: rtu, Unit: 10, TID: 0x1717, Addr: 3, Qty: uint16(rq), WAddr: 14, WQty: uint16(wq), N: 2 * wq, Pattern: "pos"}, res, lc)
				}
			}
			for wq := 1; wq <= spec.MaxRWWriteRegs; wq++ {
				for _, rq := range []int{1, 2, 124, 125} {
					for _, a := range []uint16{0, 65535} {
						eval(Case{Legal: true, FC: 23, RTU: rtu, Unit: 10, TID: 0x1717, Addr: a, Qty: uint16(rq), WAddr: a ^ 0xFF, WQty: uint16(wq), N: 2 * wq, Pattern: "ones"}, res, lc)
					}
				}
			}
			// illegal read quantity (full) with a legal write part; illegal write quantity (full) with a legal read part
			for q := 0; q < 65536; q++ {
				if q < 1 || q > spec.MaxRWReadRegs {
					eval(Case{Legal: false, FC: 23, RTU: rtu, Unit: 10, TID: 0x1717, Addr: 3, Qty: uint16(q), WAddr: 14, WQty: 3, N: 6, Pattern: "pos"}, res, lc)
				}
				if q < 1 || q > spec.MaxRWWriteRegs {
					n := 2 * q
					if n > 255 {
						n = 242
					}
					eval(Case{Legal: false, FC: 23, RTU: rtu, Unit: 10, TID: 0x1717, Addr: 3, Qty: 6, WAddr: 14, WQty: uint16(q), N: n, Pattern: "pos"}, res, lc)
				}
			}
		})
	}
	var mu sync.Mutex
	var tot local
	ev.Par(len(jobs), runtime.NumCPU(), func(i int) {
		var lc local
		jobs[i](&lc)
		mu.Lock()
		tot.evals += lc.evals
		tot.nontrivial += lc.nontrivial
		tot.ctorRefused += lc.ctorRefused
		mu.Unlock()
	})
	res.Add("evaluations", tot.evals)
	res.Add("legal_requests_constructor_refused", tot.ctorRefused)
	res.DistinctAdd("nontrivial", tot.nontrivial)
	res.Axis("function code x framing", "full", 20)
	res.Axis("quantity / count / value field", "full 0..65535 (legal part round-tripped, illegal part must be refused)", 65536)
	res.Axis("address, unit, tid", "boundary alphabets; unit full at boundary quantities", 256)
	res.Sample(Case{Legal: true, FC: 1, Unit: 1, TID: 2, Addr: 0x13, Qty: 2000})
	res.Sample(Case{Legal: false, FC: 5, RTU: true, Unit: 5, Addr: 0xAC, Value: 0x00FF})
	res.Sample(Case{Legal: true, FC: 23, Unit: 10, Addr: 3, Qty: 125, WAddr: 14, WQty: 121, N: 242, Pattern: "pos"})
}

func replay(check string, raw json.RawMessage, res *ev.Result) {
	var c Case
	json.Unmarshal(raw, &c)
	var lc local
	eval(c, res, &lc)
}

func main() {
	ev.Main(ev.Spec{
		Property: prop, Level: "exploration",
		Rule: "legal requests (full legal quantity range of every function) are encoded by the library and parsed back by the dispatchers and per-function parsers (RTU with and without CRC trailer); " +
			"frames with every illegal quantity / coil value 0..65535 are produced by the spec encoder and must be refused. non-trivial = frames that reached the parsers (distinct by construction)",
		Assumptions: []string{"payload bytes abstracted to patterns", "a legal request the constructor refuses (FC23 read quantity 125) is encoded through a struct literal + Bytes()"},
		Run:         run, Replay: replay,
	})
}
