// C07 — clients return the complete reply however the transport fragments it.
// Engine B: every fragmentation of the reply (all cut sets for short replies, <=1/<=2 cuts at all positions for long
// ones) with interleaved empty timed-out reads, for the TCP, RTU-over-network and serial clients, on virtual time.
package main

import (
	"bytes"
	"encoding/json"
	"fmt"
	"math"
	"os"
	"strings"
	"time"

	"verif/clientx"
	"verif/ev"
	"verif/explore"
	"verif/lib"
	"verif/spec"
)

const prop = "C07"

type Case struct {
	Kind    int      `json:"kind"`
	Req     spec.Req `json:"req"`
	ExcCode int      `json:"exc_code"` // -1 normal reply
	IDLen   int      `json:"id_len"`
	IDExtra int      `json:"id_extra"`
	Cuts    int      `json:"cut_budget"`
	Empties int      `json:"empty_budget"`
	EOFs    int      `json:"eof_budget"`
	Choices []int    `json:"choices"`
}

type counters struct {
	execs, points, nontrivial int64
	states                    map[string]struct{}
}

func judge(sc clientx.Sc, run clientx.Run, c Case, res *ev.Result) {
	rtu := sc.Kind.RTU()
	trueLen := len(sc.Reply)
	// chunk boundaries actually used
	cutInGap := false
	cum := 0
	for _, e := range run.Log {
		if e.Op == "read" && e.N > 0 {
			cum += e.N
			// a boundary the TRANSPORT chose (it delivered less than the client's buffer could take); a boundary that exists
			// only because the client offered a small buffer is the client's doing and no part of the known finding
			if cum >= sc.Expected && cum < trueLen && (e.BufSz == 0 || e.N < e.BufSz) {
				cutInGap = true
			}
		}
	}
	pinned := clientx.PinnedExpected(sc.Req, rtu)
	attrs := map[string]any{"client": sc.Kind.String(), "fc": int(sc.Req.FC), "exception_reply": sc.Exc,
		"expected_is_test_pinned_value": sc.Expected == pinned, "expected_vs_true": sign(sc.Expected - trueLen), "cut_in_expected_gap": cutInGap}
	bad := func(kind, msg string) {
		res.Violate(ev.Violation{Check: "frag", Kind: kind, Attrs: attrs,
			Msg: fmt.Sprintf("%s: %s [expected_len=%d true_len=%d choices=%v reads=%s]", sc.Name, msg, sc.Expected, trueLen, c.Choices, readsOf(run)), Case: c})
	}
	if run.Panic != "" && !run.Hang {
		bad("panic", "request call panicked: "+run.Panic)
		return
	}
	if run.Hang {
		bad("hang", run.Panic)
		return
	}
	// the request seen by the transport
	var writes [][]byte
	firstRead, firstWrite := -1, -1
	for i, e := range run.Log {
		if e.Op == "write" {
			writes = append(writes, e.Data)
			if firstWrite < 0 {
				firstWrite = i
			}
		}
		if e.Op == "read" && firstRead < 0 {
			firstRead = i
		}
	}
	if len(writes) != 1 || !bytes.Equal(writes[0], sc.Q.Bytes()) || (firstRead >= 0 && firstRead < firstWrite) {
		bad("wrong-request-on-wire", fmt.Sprintf("transport saw writes %x, want exactly %x before any read", writes, sc.Q.Bytes()))
		return
	}
	complete := run.Delivered == trueLen
	if sc.Exc {
		if !lib.IsNil(run.Resp) {
			bad("exception-returned-as-response", fmt.Sprintf("got response %T for an exception reply", run.Resp))
			return
		}
		u, fn, code, tid, ok := clientx.ExceptionOf(run.Err, rtu)
		if !ok || u != sc.Req.Unit || fn != sc.Req.FC || code != sc.ExcCode || (!rtu && tid != sc.Req.TID) {
			k := "exception-not-typed"
			if isTimeout(run.Err) && complete {
				k = "timeout-on-complete-reply"
			}
			bad(k, fmt.Sprintf("exception reply %x: error %v (%T) does not unwrap to the typed exception unit=%d fc=%d code=%d", sc.Reply, run.Err, run.Err, sc.Req.Unit, sc.Req.FC, sc.ExcCode))
		}
		return
	}
	if run.Err != nil || lib.IsNil(run.Resp) {
		k := "error-on-complete-reply"
		switch {
		case isTimeout(run.Err) && complete:
			k = "timeout-on-complete-reply"
		case !complete:
			k = "gave-up-before-reply-complete"
		}
		bad(k, fmt.Sprintf("well-formed reply %s, delivered %d/%d bytes: got (%v, %v)", ev.Hex(sc.Reply), run.Delivered, trueLen, run.Resp, run.Err))
		return
	}
	got := run.Resp.Bytes()
	if !bytes.Equal(got, sc.Reply) {
		k := "wrong-value"
		if len(got) < trueLen {
			k = "truncated-value"
		}
		bad(k, fmt.Sprintf("returned response encodes to %s, reply was %s", ev.Hex(got), ev.Hex(sc.Reply)))
		return
	}
	tn := fmt.Sprintf("%T", run.Resp)
	if run.Resp.FunctionCode() != sc.Req.FC || !strings.HasSuffix(tn, map[bool]string{true: "RTU", false: "TCP"}[rtu]) {
		bad("wrong-response-type", "dynamic type "+tn)
	}
}

func readsOf(run clientx.Run) string {
	var s []string
	for _, e := range run.Log {
		if e.Op == "read" {
			x := fmt.Sprint(e.N)
			if e.Err != "" {
				x += "!" + e.Err[:min(12, len(e.Err))]
			}
			s = append(s, x)
		}
	}
	return strings.Join(s, ",")
}

func isTimeout(err error) bool {
	return err != nil && strings.Contains(err.Error(), "total read timeout exceeded")
}

func sign(d int) string {
	switch {
	case d < 0:
		return "short"
	case d > 0:
		return "long"
	}
	return "exact"
}

// exploreScenario enumerates every execution of one scenario under the given budgets.
func exploreScenario(sc clientx.Sc, base Case, res *ev.Result, cnt *counters) {
	body := func(withCheck bool) func(c *explore.Ctx) {
		return func(c *explore.Ctx) {
			c.SetBudget("cut", base.Cuts)
			c.SetBudget("empty", base.Empties)
			c.SetBudget("eof", base.EOFs)
			run := clientx.Execute(sc.Scenario, sc.Q, &clientx.Frag{C: c, Kind: sc.Kind}, clientx.Options{ReadTimeout: 5 * time.Millisecond})
			cs := base
			cs.Choices = c.Choices()
			before := len(res.Violations)
			judge(sc, run, cs, res)
			if withCheck && len(res.Violations) > before {
				// ownership of nondeterminism: the same choice sequence must give identical observations
				o1 := run.Observation()
				for i := 0; i < 2; i++ {
					c2 := explore.Replay(func(c *explore.Ctx) {
						c.SetBudget("cut", base.Cuts)
						c.SetBudget("empty", base.Empties)
						c.SetBudget("eof", base.EOFs)
						r2 := clientx.Execute(sc.Scenario, sc.Q, &clientx.Frag{C: c, Kind: sc.Kind}, clientx.Options{ReadTimeout: 5 * time.Millisecond})
						if r2.Observation() != o1 {
							panic(explore.ReplayError{Msg: "explore: replay of a violating execution gave different observations"})
						}
					}, cs.Choices)
					_ = c2
				}
			}
			if c.Deviations() > 0 {
				cnt.nontrivial++
			}
			// canonical environment state: (client, request type, bytes delivered, last answer kind)
			for _, e := range run.Log {
				if e.Op == "read" {
					last := "data"
					if e.N == 0 {
						last = "empty"
					}
					cnt.states[fmt.Sprintf("%d/%d/%d/%s", sc.Kind, sc.Req.FC, e.N, last)] = struct{}{}
				}
			}
		}
	}
	st := explore.Explore(body(true), 0)
	cnt.execs += st.Executions
	cnt.points += st.Points
}

func scenarioCase(sc clientx.Sc) Case {
	c := Case{Kind: int(sc.Kind), Req: sc.Req, ExcCode: -1}
	if sc.Exc {
		c.ExcCode = int(sc.ExcCode)
	}
	return c
}

func allScenarios(full bool) []clientx.Sc {
	var out []clientx.Sc
	for _, k := range []clientx.Kind{clientx.TCP, clientx.RTUNet, clientx.Serial, clientx.SerialFlusher} {
		if k == clientx.SerialFlusher && !full {
			out = append(out, clientx.Scenarios(k, false)...)
			continue
		}
		out = append(out, clientx.Scenarios(k, full)...)
		out = append(out, clientx.ExceptionScenarios(k, []int{1, 2, 3, 4, 5, 6, 8, 10, 11, 0, 255})...)
	}
	return out
}

func run(tier string, shard, nsh int, res *ev.Result) {
	if err := spec.SelfCheck(); err != nil {
		panic(err)
	}
	thorough := tier == "thorough"
	scs := allScenarios(true)
	cnt := &counters{states: map[string]struct{}{}}
	costs := make([]float64, len(scs))
	for i, sc := range scs {
		n := float64(len(sc.Reply))
		switch {
		case n <= 13:
			costs[i] = math.Pow(2, n-1) * n * 3
		case thorough && n <= 120:
			costs[i] = n * n * n / 2
		default:
			costs[i] = n * n * 3
		}
	}
	for i, sc := range scs {
		if sc.Req.FC == 23 && !sc.Exc { // every execution runs into the read timeout (known finding C07-F2): ~10x more reads
			costs[i] *= 8
		}
	}
	if shard == 0 {
		nc := sequenceCheck(res)
		res.Add("sequence_calls", nc)
		res.Add("evaluations", nc)
		res.Axis("sequences of 3 request calls on one client (earlier replies must stay intact)", "7x7x2 request triples x 4 client kinds", nc/3)
	}
	asg := ev.Assign(costs, nsh)
	for i, sc := range scs {
		if asg[i] != shard {
			continue
		}
		n := len(sc.Reply)
		base := scenarioCase(sc)
		if n <= 13 {
			// all 2^(n-1) cut sets, each with <= 1 empty read at any boundary and an optional EOF on the last chunk
			base.Cuts, base.Empties, base.EOFs = n, 1, 1
			exploreScenario(sc, base, res, cnt)
			continue
		}
		base.Cuts, base.Empties, base.EOFs = 1, 1, 1
		if thorough {
			base.Cuts = 2
			if n > 120 { // two cuts at all positions for every size up to 120 bytes and for the boundary sizes above
				boundary := n == len(sc.Reply) && (n%50 == 9 || n >= 255 || sc.Req.FC == 17)
				if !boundary {
					base.Cuts = 1
				}
			}
		}
		exploreScenario(sc, base, res, cnt)
	}
	res.Add("evaluations", cnt.execs)
	res.Add("executions", cnt.execs)
	res.Add("choice_points", cnt.points)
	res.Add("scenarios", int64(len(scs)))
	res.DistinctAdd("nontrivial", cnt.nontrivial)
	for k := range cnt.states {
		res.Seen("states", []byte(k))
	}
	if shard == 0 {
		res.Axis("client kind", "tcp, rtu-net, serial, serial-flusher", 4)
		res.Axis("request type x reply size", "10 functions; FC1/2 every byte count 1..250, FC3/4 every quantity 1..125, FC23 every constructible quantity, FC17 20 ids x 5 extras; 11 exception codes", int64(len(scs)))
		res.Axis("fragmentation", map[bool]string{true: "all cut sets for replies <=13 bytes; <=2 cuts at all positions (<=120 bytes and boundary sizes), <=1 cut above", false: "all cut sets for replies <=13 bytes; <=1 cut at all positions above"}[thorough], 0)
		res.Axis("empty timed-out reads", "<=1 at any boundary (serial: 0/nil, 0/deadline, 0/EOF variants); EOF on the last chunk (network)", 0)
		res.Sample(map[string]any{"scenario": scs[0].Name, "reply": ev.Hex(scs[0].Reply), "choices": []int{3, 0}, "meaning": "first read delivers 3 bytes, second the rest"})
		res.Sample(map[string]any{"scenario": scs[len(scs)/2].Name, "reply": ev.Hex(scs[len(scs)/2].Reply), "choices": []int{0}})
	}
}

func replay(check string, raw json.RawMessage, res *ev.Result) {
	if check == "sequence" {
		sequenceCheck(res) // cheap: re-run the whole sub-check
		return
	}
	var c Case
	json.Unmarshal(raw, &c)
	var sc clientx.Sc
	found := false
	for _, s := range allScenarios(true) {
		sc0 := scenarioCase(s)
		if sc0.Kind == c.Kind && fmt.Sprint(sc0.Req) == fmt.Sprint(c.Req) && sc0.ExcCode == c.ExcCode {
			sc, found = s, true
			if c.Req.FC != 17 {
				break
			}
		}
	}
	if !found {
		fmt.Fprintln(os.Stderr, "scenario not found")
		return
	}
	explore.Replay(func(x *explore.Ctx) {
		x.SetBudget("cut", c.Cuts)
		x.SetBudget("empty", c.Empties)
		x.SetBudget("eof", c.EOFs)
		run := clientx.Execute(sc.Scenario, sc.Q, &clientx.Frag{C: x, Kind: sc.Kind}, clientx.Options{ReadTimeout: 5 * time.Millisecond})
		judge(sc, run, c, res)
	}, c.Choices)
}

func main() {
	ev.Main(ev.Spec{
		Property: prop, Level: "model_checking",
		Rule: "stateless DFS over the transport's answers on the real client code (virtual time): default answer = deliver everything left; deviations = deliver only the next k bytes (every k), an empty timed-out read, EOF on the last chunk. " +
			"Every execution is compared with the reference outcome (the reply, parsed, or the typed exception).",
		Assumptions: []string{"time is virtual: ReadTimeout 5 ms, far above what any explored script consumes (<= 1 empty read)", "reply payloads come from the reference device's hash image",
			"more than 2 cuts on replies longer than 13 bytes are not explored"},
		Run: run, Replay: replay,
		Shards: func(tier string) int { return 16 },
		Finish: func(tier string, res *ev.Result, cov map[string]any) {
			cov["states"] = res.Distinct["states"]
			cov["transitions"] = res.Counters["choice_points"]
			cov["traces_validated_against_impl"] = res.Counters["executions"]
			cov["state_definition"] = "(client kind, function, bytes delivered by a read, data/empty) tuples observed"
		},
	})
}
