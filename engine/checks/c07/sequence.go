package main

// Sequences of request calls on ONE client (from a non-initial state): the reply returned by an earlier call must still
// be the complete reply to that call after later calls have been made on the same client (a client that hands out views
// into a receive buffer it reuses returns a "complete reply" that stops being one), and every later call must still
// return its own complete reply.

import (
	"context"
	"errors"
	"fmt"
	"io"
	"net"
	"os"
	"time"

	modbus "github.com/aldas/go-modbus-client"
	"github.com/aldas/go-modbus-client/packet"
	"github.com/aldas/go-modbus-client/verifshim/vtime"
	"verif/clientx"
	"verif/ev"
	"verif/lib"
	"verif/spec"
)

type seqConn struct {
	rtu    bool
	serial bool
	dev    *spec.Device
	chunks [][]byte
	rdl    time.Time
}

func (c *seqConn) Write(p []byte) (int, error) {
	rq, err := spec.DecodeReq(p, c.rtu)
	if err != nil {
		return len(p), nil
	}
	setServerID(c.dev, rq)
	reply := c.dev.Handle(rq).Frame(c.rtu)
	h := (len(reply) + 1) / 2
	if rq.FC == 17 {
		// delivered whole: where a Read Server ID reply may be cut is the business of the main check (and of the known
		// findings C07-F1 / F2: the unchanged client stops at its guessed length); here only the history matters
		h = len(reply)
	}
	c.chunks = append(c.chunks, append([]byte(nil), reply[:h]...))
	if h < len(reply) {
		c.chunks = append(c.chunks, append([]byte(nil), reply[h:]...))
	}
	return len(p), nil
}

func (c *seqConn) Read(p []byte) (int, error) {
	vtime.Advance(10 * time.Microsecond)
	if len(c.chunks) == 0 {
		if c.serial {
			vtime.Advance(10 * time.Millisecond)
			return 0, nil
		}
		vtime.AdvanceTo(c.rdl)
		return 0, os.ErrDeadlineExceeded
	}
	n := copy(p, c.chunks[0])
	if n < len(c.chunks[0]) {
		c.chunks[0] = c.chunks[0][n:]
	} else {
		c.chunks = c.chunks[1:]
	}
	return n, nil
}
func (c *seqConn) Close() error                       { return nil }
func (c *seqConn) Flush() error                       { return nil }
func (c *seqConn) LocalAddr() net.Addr                { return &net.TCPAddr{} }
func (c *seqConn) RemoteAddr() net.Addr               { return &net.TCPAddr{} }
func (c *seqConn) SetDeadline(t time.Time) error      { c.rdl = t; return nil }
func (c *seqConn) SetReadDeadline(t time.Time) error  { c.rdl = t; return nil }
func (c *seqConn) SetWriteDeadline(t time.Time) error { return nil }

// setServerID: the length of the Read Server ID reply depends on the unit asked (units behind a gateway): unit u answers
// with u bytes of id.
func setServerID(d *spec.Device, rq spec.Req) {
	if rq.FC == 17 {
		d.ServerID = lib.Pattern("pos", int(rq.Unit), 0)
	}
}

type SeqCase struct {
	Kind string     `json:"client"`
	Reqs []spec.Req `json:"requests"`
}

func sequenceCheck(res *ev.Result) (calls int64) {
	type doer interface {
		Do(ctx context.Context, req packet.Request) (packet.Response, error)
	}
	// request alphabet: replies of different lengths and contents, one exception
	alpha := []spec.Req{
		{FC: 3, Unit: 1, Addr: 10, Qty: 2}, {FC: 3, Unit: 1, Addr: 500, Qty: 2}, {FC: 3, Unit: 2, Addr: 40, Qty: 5},
		{FC: 4, Unit: 1, Addr: 7, Qty: 1}, {FC: 1, Unit: 1, Addr: 3, Qty: 19}, {FC: 16, Unit: 1, Addr: 20, Qty: 2, Data: []byte{1, 2, 3, 4}},
		{FC: 6, Unit: 1, Addr: 9, Value: 0x1234},
	}
	// longer histories: runs of 1..5 exception replies (three different codes) followed by ordinary calls; Read Server ID
	// replies that grow and shrink from call to call (the reply length is not a function of the request)
	exc := []spec.Req{{FC: 3, Unit: 1, Addr: 0xFFFF, Qty: 2}, {FC: 16, Unit: 1, Addr: 0xFFFF, Qty: 2, Data: []byte{1, 2, 3, 4}}, {FC: 1, Unit: 2, Addr: 0xFFF0, Qty: 19}}
	var long [][]spec.Req
	for n := 1; n <= 5; n++ {
		for _, tail := range []spec.Req{alpha[0], alpha[5], exc[1]} {
			var q []spec.Req
			for i := 0; i < n; i++ {
				q = append(q, exc[i%len(exc)])
			}
			long = append(long, append(append(q, tail), alpha[2]))
			var q1 []spec.Req
			for i := 0; i < n; i++ {
				q1 = append(q1, exc[0])
			}
			long = append(long, append(q1, tail))
		}
	}
	for _, us := range [][]uint8{{9, 2}, {2, 9}, {9, 9, 2}, {30, 3, 12}, {3, 30, 3}, {200, 1}, {1, 200, 1}} {
		var q []spec.Req
		for _, u := range us {
			q = append(q, spec.Req{FC: 17, Unit: u})
		}
		long = append(long, q, append(append([]spec.Req{alpha[0]}, q...), alpha[1]))
	}
	for _, kind := range []string{"tcp", "rtu-net", "serial", "serial-flusher"} {
		rtu := kind != "tcp"
		var seqs [][]spec.Req
		for i := range alpha {
			for j := range alpha {
				for k := range alpha {
					if k != 0 && k != i { // triples: third call is either a repetition of the first or the first alphabet entry
						continue
					}
					seqs = append(seqs, []spec.Req{alpha[i], alpha[j], alpha[k]})
				}
			}
		}
		seqs = append(seqs, long...)
		{
			{
				for _, seq := range seqs {
					conn := &seqConn{rtu: rtu, serial: kind == "serial" || kind == "serial-flusher", dev: spec.NewDevice(spec.ImageHash, spec.BitImage)}
					vtime.ResetClock()
					var cl doer
					switch kind {
					case "tcp", "rtu-net":
						conf := modbus.ClientConfig{ReadTimeout: time.Second, DialContextFunc: func(ctx context.Context, a string) (net.Conn, error) { return conn, nil }}
						var c *modbus.Client
						if rtu {
							c = modbus.NewRTUClientWithConfig(conf)
						} else {
							c = modbus.NewTCPClientWithConfig(conf)
						}
						c.Connect(context.Background(), "x")
						cl = c
					case "serial":
						cl = modbus.NewSerialClient(struct{ io.ReadWriteCloser }{conn}, modbus.WithSerialReadTimeout(time.Second))
					default:
						cl = modbus.NewSerialClient(conn, modbus.WithSerialReadTimeout(time.Second))
					}
					ref := spec.NewDevice(spec.ImageHash, spec.BitImage)
					var got []packet.Response
					var want [][]byte
					fail := func(kindV, msg string) {
						res.Violate(ev.Violation{Check: "sequence", Kind: kindV, Attrs: map[string]any{"client": kind},
							Msg: fmt.Sprintf("%s client, calls %+v: %s", kind, seq, msg), Case: SeqCase{Kind: kind, Reqs: seq}})
					}
					ok := true
					for n, r := range seq {
						calls++
						rr := r
						rr.TID = uint16(0x0A00 + n)
						q, err := lib.NewRequest(rr, rtu)
						if err != nil {
							ok = false
							break
						}
						if !rtu {
							lib.SetTID(q, rr.TID)
						}
						dr, derr := spec.DecodeReq(q.Bytes(), rtu)
						if derr != nil {
							ok = false
							break
						}
						setServerID(ref, dr)
						wr := ref.Handle(dr)
						w := wr.Frame(rtu)
						resp, err := lib.SafeDo(cl.Do, context.Background(), q)
						if wr.Exc {
							// the device refuses: the call must end with the typed exception carrying the device's code
							_, fn, code, _, isExc := clientx.ExceptionOf(err, rtu)
							if !isExc || code != wr.ExCode || fn&0x7F != dr.FC {
								fail("exception-not-reported", fmt.Sprintf("call %d: the device answered exception %d to function %d; the call returned (%v, %v)", n, wr.ExCode, dr.FC, resp, err))
								ok = false
								break
							}
							continue
						}
						if err != nil || lib.IsNil(resp) {
							var ce *modbus.ClientError
							_ = errors.As(err, &ce)
							fail("later-call-fails", fmt.Sprintf("call %d returned (%v, %v), reference reply %x", n, resp, err, w))
							ok = false
							break
						}
						got = append(got, resp)
						want = append(want, w)
					}
					if !ok {
						continue
					}
					for n := range got {
						if b := got[n].Bytes(); string(b) != string(want[n]) {
							fail("earlier-reply-changed", fmt.Sprintf("after all %d calls, the response returned by call %d encodes to %x, the reply it received was %x", len(seq), n, b, want[n]))
							break
						}
					}
				}
			}
		}
	}
	return calls
}
