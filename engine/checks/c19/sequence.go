package main

// Sequences of request calls on ONE client with hooks installed (from a non-initial state): the hooks of a later call
// must observe exactly that call's bytes - nothing left over from an earlier call that ended in an exception reply or in
// a transport failure.

import (
	"context"
	"errors"
	"fmt"
	"io"
	"net"
	"os"
	"time"

	modbus "github.com/aldas/go-modbus-client"
	"github.com/aldas/go-modbus-client/packet"
	"github.com/aldas/go-modbus-client/verifshim/vtime"
	"verif/ev"
	"verif/lib"
	"verif/spec"
)

type seqConn struct {
	rtu, serial bool
	dev         *spec.Device
	chunks      [][]byte
	rdl         time.Time
	failNext    bool // the next read delivers 2 bytes together with an I/O error
	mute        bool // requests are swallowed: the line stays silent
	log         [][]byte
	nreads      int // every Read call, empty ones included
}

var errSeq = errors.New("injected i/o error")

func (c *seqConn) Write(p []byte) (int, error) {
	if c.mute {
		return len(p), nil
	}
	rq, err := spec.DecodeReq(p, c.rtu)
	if err != nil {
		return len(p), nil
	}
	reply := c.dev.Handle(rq).Frame(c.rtu)
	h := (len(reply) + 1) / 2
	c.chunks = append(c.chunks, append([]byte(nil), reply[:h]...), append([]byte(nil), reply[h:]...))
	return len(p), nil
}

func (c *seqConn) Read(p []byte) (int, error) {
	c.nreads++
	vtime.Advance(10 * time.Microsecond)
	if len(c.chunks) == 0 {
		if c.serial {
			vtime.Advance(10 * time.Millisecond)
			return 0, nil
		}
		vtime.AdvanceTo(c.rdl)
		return 0, os.ErrDeadlineExceeded
	}
	if c.failNext {
		c.failNext = false
		n := copy(p, c.chunks[0][:2])
		c.chunks = nil // the rest of that reply is lost with the failure
		c.log = append(c.log, append([]byte(nil), p[:n]...))
		return n, errSeq
	}
	n := copy(p, c.chunks[0])
	if n < len(c.chunks[0]) {
		c.chunks[0] = c.chunks[0][n:]
	} else {
		c.chunks = c.chunks[1:]
	}
	c.log = append(c.log, append([]byte(nil), p[:n]...))
	return n, nil
}
func (c *seqConn) Close() error                       { return nil }
func (c *seqConn) Flush() error                       { return nil }
func (c *seqConn) LocalAddr() net.Addr                { return &net.TCPAddr{} }
func (c *seqConn) RemoteAddr() net.Addr               { return &net.TCPAddr{} }
func (c *seqConn) SetDeadline(t time.Time) error      { c.rdl = t; return nil }
func (c *seqConn) SetReadDeadline(t time.Time) error  { c.rdl = t; return nil }
func (c *seqConn) SetWriteDeadline(t time.Time) error { return nil }

type recHooks struct {
	writes, reads [][]byte
	parses        [][]byte
	nreads        int // every AfterEachRead call
}

func (h *recHooks) BeforeWrite(b []byte) { h.writes = append(h.writes, append([]byte(nil), b...)) }
func (h *recHooks) AfterEachRead(b []byte, n int, err error) {
	h.nreads++
	if n > 0 {
		h.reads = append(h.reads, append([]byte(nil), b...))
	}
}
func (h *recHooks) BeforeParse(b []byte) { h.parses = append(h.parses, append([]byte(nil), b...)) }

type SeqCase struct {
	Kind  string   `json:"client"`
	First string   `json:"first_call"`
	Reqs  []string `json:"requests_hex"`
}

func sequenceCheck(res *ev.Result) (calls int64) {
	type doer interface {
		Do(ctx context.Context, req packet.Request) (packet.Response, error)
	}
	ok1 := spec.Req{FC: 3, Unit: 1, Addr: 10, Qty: 2}
	ok2 := spec.Req{FC: 4, Unit: 2, Addr: 40, Qty: 3}
	exc := spec.Req{FC: 3, Unit: 1, Addr: 65535, Qty: 5} // leaves the address space: the reference device answers with exception 02
	for _, kind := range []string{"tcp", "rtu-net", "serial", "serial-flusher"} {
		rtu := kind != "tcp"
		for _, first := range []string{"ok", "exception", "io-error-with-data", "timeout", "timeout-then-late-reply"} {
			conn := &seqConn{rtu: rtu, serial: kind == "serial" || kind == "serial-flusher", dev: spec.NewDevice(spec.ImageHash, spec.BitImage)}
			h := &recHooks{}
			vtime.ResetClock()
			var cl doer
			switch kind {
			case "tcp", "rtu-net":
				conf := modbus.ClientConfig{ReadTimeout: time.Second, Hooks: h, DialContextFunc: func(ctx context.Context, a string) (net.Conn, error) { return conn, nil }}
				var c *modbus.Client
				if rtu {
					c = modbus.NewRTUClientWithConfig(conf)
				} else {
					c = modbus.NewTCPClientWithConfig(conf)
				}
				c.Connect(context.Background(), "x")
				cl = c
			case "serial":
				cl = modbus.NewSerialClient(struct{ io.ReadWriteCloser }{conn}, modbus.WithSerialReadTimeout(time.Second), modbus.WithSerialHooks(h))
			default:
				cl = modbus.NewSerialClient(conn, modbus.WithSerialReadTimeout(time.Second), modbus.WithSerialHooks(h))
			}
			seq := []spec.Req{ok1, ok2}
			switch first {
			case "exception":
				seq[0] = exc
			case "io-error-with-data":
				conn.failNext = true
			case "timeout", "timeout-then-late-reply":
				conn.mute = true // the first call is abandoned after its total read timeout
			}
			var hexes []string
			for n, r := range seq {
				calls++
				r.TID = uint16(0x0B00 + n)
				q, err := lib.NewRequest(r, rtu)
				if err != nil {
					panic(err)
				}
				if !rtu {
					lib.SetTID(q, r.TID)
				}
				hexes = append(hexes, fmt.Sprintf("%x", q.Bytes()))
				w0, r0, p0 := len(h.writes), len(h.reads), len(h.parses)
				t0 := len(conn.log)
				tn, hn := conn.nreads, h.nreads
				resp, derr := lib.SafeDo(cl.Do, context.Background(), q)
				if n == 0 {
					if conn.mute {
						conn.mute = false
						if first == "timeout-then-late-reply" {
							// the reply to the abandoned call arrives now, before the next call is made
							dr, _ := spec.DecodeReq(q.Bytes(), rtu)
							late := conn.dev.Handle(dr).Frame(rtu)
							conn.chunks = append(conn.chunks, late)
						}
					}
					continue
				}
				fail := func(k, msg string) {
					res.Violate(ev.Violation{Check: "sequence", Kind: k, Attrs: map[string]any{"client": kind, "first": first},
						Msg: fmt.Sprintf("%s client, second call after a first call that ended with %s: %s", kind, first, msg), Case: SeqCase{Kind: kind, First: first, Reqs: hexes}})
				}
				if pe, isPanic := derr.(*lib.PanicError); isPanic {
					fail("panic", "the call panicked: "+pe.Value)
					continue
				}
				// every transport read of this call was reported, whatever the call made of it
				if dt, dh := conn.nreads-tn, h.nreads-hn; dt != dh {
					fail("after-each-read-count", fmt.Sprintf("the transport was read %d times during the call, AfterEachRead ran %d times", dt, dh))
					continue
				}
				if first == "timeout-then-late-reply" {
					// what the call returns when a stale reply precedes its own is not this property's business: only that the
					// hooks saw exactly what was read
					var wire, hooked []byte
					for _, c := range conn.log[t0:] {
						wire = append(wire, c...)
					}
					for _, c := range h.reads[r0:] {
						hooked = append(hooked, c...)
					}
					if string(wire) != string(hooked) {
						fail("after-each-read-wrong", fmt.Sprintf("AfterEachRead saw %x, the transport delivered %x", hooked, wire))
					}
					continue
				}
				if derr != nil || lib.IsNil(resp) {
					fail("later-call-fails", fmt.Sprintf("returned (%v, %v)", resp, derr))
					continue
				}
				if len(h.writes)-w0 != 1 || string(h.writes[w0]) != string(q.Bytes()) {
					fail("before-write-wrong", fmt.Sprintf("BeforeWrite calls %x, request %x", h.writes[w0:], q.Bytes()))
				}
				var wire, hooked []byte
				for _, c := range conn.log[t0:] {
					wire = append(wire, c...)
				}
				for _, c := range h.reads[r0:] {
					hooked = append(hooked, c...)
				}
				if string(wire) != string(hooked) {
					fail("after-each-read-wrong", fmt.Sprintf("AfterEachRead saw %x, the transport delivered %x", hooked, wire))
				}
				if len(h.parses)-p0 != 1 || string(h.parses[p0]) != string(wire) {
					fail("before-parse-wrong", fmt.Sprintf("BeforeParse calls %x, the reply of this call is %x", h.parses[p0:], wire))
				}
			}
		}
	}
	return calls
}
