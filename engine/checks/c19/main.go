// C19 — client hooks observe exactly the bytes sent, each chunk read and the final frame; hooks never change the outcome.
package main

import (
	"bytes"
	"context"
	"encoding/json"
	"errors"
	"fmt"
	"math"
	"os"
	"strings"
	"time"

	modbus "github.com/aldas/go-modbus-client"
	"verif/clientx"
	"verif/ev"
	"verif/explore"
	"verif/lib"
	"verif/spec"
)

const prop = "C19"

type Case struct {
	Kind    int      `json:"kind"`
	Req     spec.Req `json:"req"`
	ExcCode int      `json:"exc_code"`
	Cuts    int      `json:"cut_budget"`
	Empties int      `json:"empty_budget"`
	EOFs    int      `json:"eof_budget"`
	Faults  int      `json:"fault_budget"`
	Choices []int    `json:"choices"`
}

func budgets(x *explore.Ctx, c Case) {
	x.SetBudget("cut", c.Cuts)
	x.SetBudget("empty", c.Empties)
	x.SetBudget("eof", c.EOFs)
	x.SetBudget("fault", c.Faults)
}

func outcome(r clientx.Run) string {
	s := fmt.Sprintf("panic=%q hang=%v elapsed=%v ", r.Panic, r.Hang, r.Elapsed)
	if lib.IsNil(r.Resp) {
		s += "resp=nil "
	} else {
		s += fmt.Sprintf("resp=%T:%x ", r.Resp, r.Resp.Bytes())
	}
	if r.Err != nil {
		s += fmt.Sprintf("err=%T:%v ", r.Err, r.Err)
	}
	for _, e := range r.Log {
		s += fmt.Sprintf("%s:%d:%x:%s@%d;", e.Op, e.N, e.Data, e.Err, e.AtNs)
	}
	return s
}

// callResult is the outcome of the call as its caller sees it (not how the transport was used to get there).
func callResult(r clientx.Run) string {
	s := fmt.Sprintf("panic=%q hang=%v ", r.Panic, r.Hang)
	if lib.IsNil(r.Resp) {
		s += "resp=nil "
	} else {
		s += fmt.Sprintf("resp=%T:%x ", r.Resp, r.Resp.Bytes())
	}
	if r.Err != nil {
		s += fmt.Sprintf("err=%T:%v", r.Err, r.Err)
	}
	return s
}

// judgeOutcomeOnly: the hooked and the hook-less client could not be given identical transport answers (they read
// differently); what the statement demands - the same outcome of the call - is compared.
func judgeOutcomeOnly(sc clientx.Sc, with, without clientx.Run, c Case, res *ev.Result) {
	if o1, o2 := callResult(with), callResult(without); o1 != o2 {
		res.Violate(ev.Violation{Check: "hooks", Kind: "hooks-change-outcome", Attrs: map[string]any{"client": sc.Kind.String(), "_fc": int(sc.Req.FC)},
			Msg: fmt.Sprintf("%s choices=%v: with hooks: %s | without (nearest transport answers): %s", sc.Name, c.Choices, o1, o2), Case: c})
	}
}

func judge(sc clientx.Sc, with, without clientx.Run, c Case, res *ev.Result) {
	attrs := map[string]any{"client": sc.Kind.String(), "_fc": int(sc.Req.FC)}
	bad := func(kind, msg string) {
		res.Violate(ev.Violation{Check: "hooks", Kind: kind, Attrs: attrs, Msg: fmt.Sprintf("%s choices=%v: %s", sc.Name, c.Choices, msg), Case: c})
	}
	if with.Panic != "" && !with.Hang {
		bad("panic-with-hooks", with.Panic)
		return
	}
	if o1, o2 := outcome(with), outcome(without); o1 != o2 {
		bad("hooks-change-outcome", fmt.Sprintf("with hooks: %s | without: %s", o1, o2))
		return
	}
	// merge transport log and hook log by sequence number
	type item struct {
		seq  int
		kind string
		ev   *clientx.Event
		hk   *clientx.HookEvent
	}
	var items []item
	for i := range with.Log {
		items = append(items, item{with.Log[i].Seq, with.Log[i].Op, &with.Log[i], nil})
	}
	for i := range with.Hooks {
		items = append(items, item{with.Hooks[i].Seq, "hook:" + with.Hooks[i].Hook, nil, &with.Hooks[i]})
	}
	for i := 1; i < len(items); i++ { // insertion sort by seq
		for j := i; j > 0 && items[j].seq < items[j-1].seq; j-- {
			items[j], items[j-1] = items[j-1], items[j]
		}
	}
	var bw, bp []*clientx.HookEvent
	var concat []byte
	var pendingRead *clientx.Event
	sawWrite := false
	lastReadSeq := 0
	for _, it := range items {
		switch it.kind {
		case "write":
			sawWrite = true
			if len(bw) != 1 {
				bad("before-write-missing", fmt.Sprintf("transport write happened after %d BeforeWrite calls", len(bw)))
				return
			}
		case "read":
			if pendingRead != nil {
				bad("after-read-missing", "a transport read was not followed by AfterEachRead before the next read")
				return
			}
			pendingRead = it.ev
			concat = append(concat, it.ev.Data...)
			lastReadSeq = it.seq
		case "hook:BeforeWrite":
			if sawWrite {
				bad("before-write-late", "BeforeWrite called after the transport already saw the write")
				return
			}
			bw = append(bw, it.hk)
		case "hook:AfterEachRead":
			if pendingRead == nil {
				bad("after-read-spurious", fmt.Sprintf("AfterEachRead(%x, %d, %v) without a preceding transport read", it.hk.Data, it.hk.N, it.hk.Err))
				return
			}
			r := pendingRead
			pendingRead = nil
			if !bytes.Equal(it.hk.Data, r.Data) || it.hk.N != r.N || len(it.hk.Data) != it.hk.N || it.hk.ErrVal() != r.ErrVal() {
				bad("after-read-wrong-args", fmt.Sprintf("transport read produced (%x, %d, %v) but AfterEachRead got (%x, %d, %v)", r.Data, r.N, r.ErrVal(), it.hk.Data, it.hk.N, it.hk.ErrVal()))
				return
			}
		case "hook:BeforeParse":
			bp = append(bp, it.hk)
			if it.seq < lastReadSeq || pendingRead != nil {
				bad("before-parse-early", "BeforeParse called before the last read was reported")
				return
			}
			if !bytes.Equal(it.hk.Data, concat) {
				bad("before-parse-wrong-bytes", fmt.Sprintf("BeforeParse got %x, concatenation of the bytes read is %x", it.hk.Data, concat))
				return
			}
		}
	}
	if pendingRead != nil {
		bad("after-read-missing", "the last transport read was not reported to AfterEachRead")
		return
	}
	if sawWrite && (len(bw) != 1 || !bytes.Equal(bw[0].Data, sc.Q.Bytes())) {
		bad("before-write-wrong-bytes", fmt.Sprintf("BeforeWrite calls %d, data %x, request %x", len(bw), bwData(bw), sc.Q.Bytes()))
		return
	}
	// was the parser reached? yes iff the call succeeded or failed with an error that is neither a transport-level
	// ClientError nor the context's error (those are produced before parsing)
	var ce *modbus.ClientError
	reached := with.Err == nil || (!errors.As(with.Err, &ce) && !errors.Is(with.Err, context.Canceled))
	if reached && len(bp) != 1 {
		bad("before-parse-count", fmt.Sprintf("parser was reached (outcome err=%v) but BeforeParse was called %d times", with.Err, len(bp)))
		return
	}
	// (A BeforeParse call on a path that does not reach the parser - e.g. for an exception reply recognised by the read
	// loop - is not ruled out by the statement, which only speaks about what happens "whenever a reply is handed to the
	// parser"; such a call was still checked above to carry exactly the concatenation of the bytes read. More than one
	// call can never be right.)
	if !reached && len(bp) > 1 {
		bad("before-parse-count", fmt.Sprintf("BeforeParse called %d times in one request call (%v)", len(bp), with.Err))
	}
}

func bwData(b []*clientx.HookEvent) []byte {
	if len(b) == 0 {
		return nil
	}
	return b[0].Data
}

func scenarios(thorough bool) []clientx.Sc {
	var out []clientx.Sc
	for _, k := range []clientx.Kind{clientx.TCP, clientx.RTUNet, clientx.Serial, clientx.SerialFlusher} {
		for _, sc := range clientx.Scenarios(k, thorough && k != clientx.Serial) {
			out = append(out, sc)
		}
		out = append(out, clientx.ExceptionScenarios(k, []int{2, 6})...)
	}
	return out
}

func mk(sc clientx.Sc) Case {
	c := Case{Kind: int(sc.Kind), Req: sc.Req, ExcCode: -1}
	if sc.Exc {
		c.ExcCode = int(sc.ExcCode)
	}
	return c
}

func runOne(sc clientx.Sc, c Case, x *explore.Ctx, hooks bool) clientx.Run {
	budgets(x, c)
	return clientx.Execute(sc.Scenario, sc.Q, &clientx.Frag{C: x, Kind: sc.Kind}, clientx.Options{WithHooks: hooks, ReadTimeout: 5 * time.Millisecond})
}

func run(tier string, shard, nsh int, res *ev.Result) {
	if shard == 0 {
		nc := sequenceCheck(res)
		res.Add("sequence_calls", nc)
		res.Add("evaluations", nc)
		res.Axis("two calls on one client with hooks (first: ok / exception reply / I/O error with data)", "4 client kinds x 3", nc/2)
	}
	thorough := tier == "thorough"
	scs := scenarios(thorough)
	var execs, points, nontrivial int64
	states := map[string]struct{}{}
	costs := make([]float64, len(scs))
	for i, sc := range scs {
		n := float64(len(sc.Reply))
		switch {
		case n <= 13:
			costs[i] = math.Pow(2, n-1) * n * 4
		case thorough && n <= 60:
			costs[i] = n * n * n
		default:
			costs[i] = n * n * 4
		}
	}
	for i, sc := range scs {
		if sc.Req.FC == 23 && !sc.Exc { // every execution runs into the read timeout (known finding C07-F2): ~10x more reads
			costs[i] *= 8
		}
	}
	asg := ev.Assign(costs, nsh)
	for i, sc := range scs {
		if asg[i] != shard {
			continue
		}
		n := len(sc.Reply)
		for _, variant := range []string{"timing", "fault"} {
			base := mk(sc)
			switch {
			case n <= 13:
				base.Cuts = n
			case thorough && n <= 60:
				base.Cuts = 2
			default:
				base.Cuts = 1
			}
			if variant == "timing" {
				base.Empties, base.EOFs = 1, 1
			} else {
				base.Faults = 1
			}
			st := explore.Explore(func(x *explore.Ctx) {
				with := runOne(sc, base, x, true)
				c := base
				c.Choices = x.Choices()
				// the run without hooks replays the same choice sequence
				var wo clientx.Run
				diverged := ""
				func() {
					defer func() {
						if rec := recover(); rec != nil {
							diverged = fmt.Sprint(rec)
							if !strings.Contains(diverged, "replay divergence") {
								panic(rec)
							}
						}
					}()
					explore.Replay(func(y *explore.Ctx) { wo = runOne(sc, base, y, false) }, c.Choices)
				}()
				if diverged != "" {
					// the client without hooks does not make the same transport calls (another window size, another number of
					// reads), so the recorded answers do not fit it exactly. The statement only demands that the OUTCOME is the
					// same: the hook-less client is run against the same byte stream with the nearest answers that exist for it
					func() {
						defer func() {
							if rec := recover(); rec != nil {
								res.Violate(ev.Violation{Check: "hooks", Kind: "hooks-change-transport-calls", Attrs: map[string]any{"client": sc.Kind.String()},
									Msg: fmt.Sprintf("%s choices=%v: the client without hooks cannot be run against the answers the hooked client got (%v / %s)", sc.Name, c.Choices, rec, diverged), Case: c})
								wo = with // nothing more to compare
							}
						}()
						explore.ReplayLenient(func(y *explore.Ctx) { wo = runOne(sc, base, y, false) }, c.Choices)
					}()
					judgeOutcomeOnly(sc, with, wo, c, res)
					return
				}
				judge(sc, with, wo, c, res)
				if len(with.Hooks) > 2 {
					nontrivial++
				}
				for _, h := range with.Hooks {
					states[fmt.Sprintf("%d/%s/%d", sc.Kind, h.Hook, h.N)] = struct{}{}
				}
			}, 0)
			execs += 2 * st.Executions
			points += st.Points
			if os.Getenv("VERIF_DEBUG") != "" {
				fmt.Fprintf(os.Stderr, "%s %s n=%d execs=%d\n", sc.Name, variant, n, st.Executions)
			}
		}
	}
	res.Add("evaluations", execs)
	res.Add("executions", execs)
	res.Add("choice_points", points)
	res.DistinctAdd("nontrivial", nontrivial)
	for k := range states {
		res.Seen("states", []byte(k))
	}
	if shard == 0 {
		res.Axis("client kind", "tcp, rtu-net, serial, serial-flusher; each execution run with and without hooks", 4)
		res.Axis("request type x reply size", map[bool]string{true: "every reply size of the legal range", false: "boundary sizes"}[thorough], int64(len(scs)))
		res.Axis("transport script", "all cut sets (<=13 bytes) / <=1 (thorough <=2 up to 60 bytes) cuts at all positions, combined with either (<=1 empty read + EOF on last chunk) or (<=1 terminal fault: I/O error with/without data, EOF)", 0)
		res.Sample(map[string]any{"scenario": scs[0].Name, "choices": []int{2, 0}})
	}
}

func replay(check string, raw json.RawMessage, res *ev.Result) {
	if check == "sequence" {
		sequenceCheck(res)
		return
	}
	var c Case
	json.Unmarshal(raw, &c)
	for _, sc := range scenarios(true) {
		b := mk(sc)
		if b.Kind == c.Kind && fmt.Sprint(b.Req) == fmt.Sprint(c.Req) && b.ExcCode == c.ExcCode {
			var with, wo clientx.Run
			explore.Replay(func(y *explore.Ctx) { with = runOne(sc, c, y, true) }, c.Choices)
			explore.Replay(func(y *explore.Ctx) { wo = runOne(sc, c, y, false) }, c.Choices)
			judge(sc, with, wo, c, res)
			return
		}
	}
	fmt.Fprintln(os.Stderr, "scenario not found")
}

func main() {
	ev.Main(ev.Spec{
		Property: prop, Level: "model_checking",
		Rule: "stateless DFS over the transport's answers (C07's alphabet plus one terminal fault); every execution is run twice on the same choice sequence, with a recording ClientHooks and without; " +
			"hook arguments are compared one-for-one with the transport log, outcomes must be identical",
		Assumptions: []string{"the recording hook copies its arguments at call time", "'parser reached' is inferred from the outcome: success, or an error that is neither *ClientError nor the context's error"},
		Run:         run, Replay: replay,
		Shards: func(tier string) int { return 16 },
		Finish: func(tier string, res *ev.Result, cov map[string]any) {
			cov["states"] = res.Distinct["states"]
			cov["transitions"] = res.Counters["choice_points"]
			cov["traces_validated_against_impl"] = res.Counters["executions"]
			cov["state_definition"] = "(client kind, hook, byte count) tuples observed"
		},
	})
}
