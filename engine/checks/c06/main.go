// C06 — batched requests cover every field, stay within limits and never mix targets.
package main

import (
	"encoding/json"
	"fmt"
	"reflect"
	"runtime"
	"sort"
	"sync"

	modbus "github.com/aldas/go-modbus-client"
	"github.com/aldas/go-modbus-client/packet"
	"verif/ev"
	"verif/spec"
)

const prop = "C06"

// F is a field definition in replayable form.
type F struct {
	Server string `json:"server"`
	Unit   uint8  `json:"unit"`
	Addr   uint16 `json:"addr"`
	Type   uint8  `json:"type"`
	Bit    uint8  `json:"bit"`
	Len    uint8  `json:"len"`
}

type Case struct {
	Target int `json:"target"` // 0..7: FC1TCP FC1RTU FC2TCP FC2RTU FC3TCP FC3RTU FC4TCP FC4RTU
	Fields []F `json:"fields"`
	// Sequence, when set, is a list of targets called one after another on one builder (evalSequence)
	Sequence []int `json:"sequence,omitempty"`
}

type local struct{ evals, ok, multi int64 }

func (f F) field(i int) modbus.Field {
	return modbus.Field{Name: fmt.Sprintf("f%d", i), ServerAddress: f.Server, UnitID: f.Unit, Address: f.Addr, Type: modbus.FieldType(f.Type), Bit: f.Bit, Length: f.Len}
}

func (f F) valid() bool {
	if f.Server == "" || f.Type == 0 || f.Type > 14 || f.Bit > 15 {
		return false
	}
	if f.Type == 13 && f.Len == 0 {
		return false
	}
	return true
}

func (f F) isCoil() bool { return f.Type == 14 }

// size in registers / coils (the specification of the field types: 64-bit = 4 registers, 32-bit = 2, string = ceil(len/2))
func (f F) size() int {
	switch f.Type {
	case 9, 10, 12:
		return 4
	case 7, 8, 11:
		return 2
	case 13:
		return (int(f.Len) + 1) / 2
	}
	return 1
}

var targetFC = []uint8{1, 1, 2, 2, 3, 3, 4, 4}

func call(target int, fields modbus.Fields) (reqs []modbus.BuilderRequest, err error, pan string) {
	defer func() {
		if rec := recover(); rec != nil {
			pan = fmt.Sprint(rec)
		}
	}()
	// the builder's own default target differs from every field's: AddAll is documented not to apply it
	b := modbus.NewRequestBuilder("dflt:9", 9).AddAll(fields)
	switch target {
	case 0:
		reqs, err = b.ReadCoilsTCP()
	case 1:
		reqs, err = b.ReadCoilsRTU()
	case 2:
		reqs, err = b.ReadDiscreteInputsTCP()
	case 3:
		reqs, err = b.ReadDiscreteInputsRTU()
	case 4:
		reqs, err = b.ReadHoldingRegistersTCP()
	case 5:
		reqs, err = b.ReadHoldingRegistersRTU()
	case 6:
		reqs, err = b.ReadInputRegistersTCP()
	case 7:
		reqs, err = b.ReadInputRegistersRTU()
	}
	return
}

func eval(c Case, res *ev.Result, lc *local) {
	lc.evals++
	fields := make(modbus.Fields, len(c.Fields))
	for i, f := range c.Fields {
		fields[i] = f.field(i)
	}
	reqs, err, pan := call(c.Target, fields)
	wantCoils := c.Target < 4
	kind := map[bool]string{true: "coils", false: "registers"}[wantCoils]
	attrs := func(m map[string]any) map[string]any {
		out := map[string]any{"kind": kind}
		for k, v := range m {
			out[k] = v
		}
		return out
	}
	bad := func(k, msg string, extra map[string]any) {
		res.Violate(ev.Violation{Check: "batch", Kind: k, Attrs: attrs(extra), Msg: fmt.Sprintf("%s; target %d fields %+v", msg, c.Target, c.Fields), Case: c})
	}
	if pan != "" {
		bad("panic", "builder panicked: "+pan, nil)
		return
	}
	if err != nil {
		if reqs != nil {
			bad("value-with-error", fmt.Sprintf("error %v together with %d requests", err, len(reqs)), nil)
		}
		return
	}
	lc.ok++
	limit := 125
	if wantCoils {
		limit = 2000
	}
	seen := map[string]int{}
	type grp struct {
		server string
		unit   uint8
	}
	perGroup := map[grp]int{}
	for ri, r := range reqs {
		if len(r.Fields) == 0 {
			bad("empty-request", fmt.Sprintf("request %d has no fields", ri), nil)
			return
		}
		if r.Request == nil {
			bad("nil-packet", fmt.Sprintf("request %d has no packet", ri), nil)
			return
		}
		rtu := c.Target%2 == 1
		dec, derr := spec.DecodeReq(r.Bytes(), rtu)
		if derr != nil || dec.FC != targetFC[c.Target] {
			bad("wrong-packet", fmt.Sprintf("request %d encodes to %s: decode error %v / function %d, want function %d framing rtu=%v", ri, ev.Hex(r.Bytes()), derr, dec.FC, targetFC[c.Target], rtu), nil)
			return
		}
		if dec.Unit != r.UnitID || dec.Addr != r.StartAddress {
			bad("packet-differs-from-descriptor", fmt.Sprintf("request %d: packet unit %d start %d, descriptor unit %d start %d", ri, dec.Unit, dec.Addr, r.UnitID, r.StartAddress), nil)
			return
		}
		if q := reflect.Indirect(reflect.ValueOf(r.Request)).FieldByName("Quantity"); !q.IsValid() || uint16(q.Uint()) != dec.Qty {
			bad("packet-differs-from-descriptor", fmt.Sprintf("request %d: struct quantity differs from encoded quantity %d", ri, dec.Qty), nil)
			return
		}
		qty := int(dec.Qty)
		start := int(r.StartAddress)
		if qty < 1 || qty > limit {
			bad("quantity-out-of-limit", fmt.Sprintf("request %d: quantity %d outside 1..%d", ri, qty, limit), nil)
			return
		}
		lo, hi := 1<<30, -1
		for _, f := range r.Fields {
			var idx int
			if _, e := fmt.Sscanf(f.Name, "f%d", &idx); e != nil || idx < 0 || idx >= len(c.Fields) {
				bad("unknown-field", fmt.Sprintf("request %d carries a field %q that was not supplied", ri, f.Name), nil)
				return
			}
			in := c.Fields[idx]
			if !reflect.DeepEqual(f, in.field(idx)) {
				bad("field-altered", fmt.Sprintf("request %d: field %s returned as %+v, supplied %+v", ri, f.Name, f, in.field(idx)), nil)
				return
			}
			seen[f.Name]++
			if in.isCoil() != wantCoils {
				bad("other-kind-included", fmt.Sprintf("request %d contains field %s of the other kind", ri, f.Name), nil)
				return
			}
			if in.Server != r.ServerAddress || in.Unit != r.UnitID {
				bad("mixed-targets", fmt.Sprintf("request %d (server %q unit %d) contains field %s of server %q unit %d", ri, r.ServerAddress, r.UnitID, f.Name, in.Server, in.Unit), nil)
				return
			}
			a, e := int(in.Addr), int(in.Addr)+in.size()
			if a < start || e > start+qty {
				bad("field-outside-window", fmt.Sprintf("request %d window [%d,%d) does not contain field %s span [%d,%d)", ri, start, start+qty, f.Name, a, e), map[string]any{"crosses_65536": e > 65536})
				return
			}
			if a < lo {
				lo = a
			}
			if e > hi {
				hi = e
			}
		}
		if lo != start || hi != start+qty {
			bad("window-not-tight", fmt.Sprintf("request %d window [%d,%d) but its fields span [%d,%d)", ri, start, start+qty, lo, hi), nil)
			return
		}
		perGroup[grp{r.ServerAddress, r.UnitID}]++
	}
	// coverage: every field of the requested kind exactly once
	gspan := map[grp][2]int{}
	for i, f := range c.Fields {
		if f.isCoil() != wantCoils || f.Type == 0 || f.Type > 14 {
			continue
		}
		n := seen[fmt.Sprintf("f%d", i)]
		if n != 1 {
			bad("field-coverage", fmt.Sprintf("field f%d appears in %d requests", i, n), map[string]any{"times": n})
			return
		}
		g := grp{f.Server, f.Unit}
		sp, ok := gspan[g]
		a, e := int(f.Addr), int(f.Addr)+f.size()
		if !ok {
			sp = [2]int{a, e}
		}
		if a < sp[0] {
			sp[0] = a
		}
		if e > sp[1] {
			sp[1] = e
		}
		gspan[g] = sp
	}
	for g, sp := range gspan {
		if sp[1]-sp[0] <= limit && perGroup[g] != 1 {
			bad("needless-split", fmt.Sprintf("fields of server %q unit %d span [%d,%d) (<= %d) but were put into %d requests", g.server, g.unit, sp[0], sp[1], limit, perGroup[g]), nil)
			return
		}
	}
	if len(gspan) >= 2 {
		lc.multi++
		// map iteration order must not matter: the set of requests is the same on a second run
		reqs2, err2, _ := call(c.Target, fields)
		if err2 != nil || canon(reqs) != canon(reqs2) {
			bad("nondeterministic", "two runs on the same input gave different request sets", nil)
		}
	}
}

// callOn runs one Read* call on an existing builder.
func callOn(b *modbus.Builder, target int) (reqs []modbus.BuilderRequest, err error, pan string) {
	defer func() {
		if rec := recover(); rec != nil {
			pan = fmt.Sprint(rec)
		}
	}()
	switch target {
	case 0:
		reqs, err = b.ReadCoilsTCP()
	case 1:
		reqs, err = b.ReadCoilsRTU()
	case 2:
		reqs, err = b.ReadDiscreteInputsTCP()
	case 3:
		reqs, err = b.ReadDiscreteInputsRTU()
	case 4:
		reqs, err = b.ReadHoldingRegistersTCP()
	case 5:
		reqs, err = b.ReadHoldingRegistersRTU()
	case 6:
		reqs, err = b.ReadInputRegistersTCP()
	case 7:
		reqs, err = b.ReadInputRegistersRTU()
	}
	return
}

// evalSequence: from a non-initial state - the Read* calls of one builder, issued one after another in the given
// order on the SAME builder, must each return what a fresh builder returns for that call (a call that rearranges the
// builder's own field list would show here and nowhere else).
func evalSequence(fs []F, order []int, res *ev.Result, lc *local) {
	lc.evals++
	fields := make(modbus.Fields, len(fs))
	for i, f := range fs {
		fields[i] = f.field(i)
	}
	shared := modbus.NewRequestBuilder("dflt:9", 9).AddAll(fields)
	for step, t := range order {
		fresh, ferr, fpan := call(t, append(modbus.Fields(nil), fields...))
		got, gerr, gpan := callOn(shared, t)
		same := fpan == gpan && (ferr == nil) == (gerr == nil) && (ferr != nil || canon(fresh) == canon(got))
		if !same {
			res.Violate(ev.Violation{Check: "batch", Kind: "depends-on-earlier-calls", Attrs: map[string]any{"step": step},
				Msg:  fmt.Sprintf("builder with fields %+v: call %d of the sequence %v returned %s (err %v, panic %q); a fresh builder returns %s (err %v)", fs, step, order, canon(got), gerr, gpan, canon(fresh), ferr),
				Case: Case{Target: t, Fields: fs, Sequence: order}})
			return
		}
	}
}

// evalGrow: Read*, then AddAll of more fields, then Read* again - the second call must return what a fresh builder
// holding all the fields returns.
func evalGrow(first, more []F, t1, t2 int, res *ev.Result, lc *local) {
	lc.evals++
	mkf := func(fs []F, off int) modbus.Fields {
		out := make(modbus.Fields, len(fs))
		for i, f := range fs {
			out[i] = f.field(off + i)
		}
		return out
	}
	b := modbus.NewRequestBuilder("dflt:9", 9).AddAll(mkf(first, 0))
	callOn(b, t1)
	b.AddAll(mkf(more, len(first)))
	got, gerr, gpan := callOn(b, t2)
	all := append(append([]F(nil), first...), more...)
	fresh, ferr, fpan := call(t2, mkf(all, 0))
	if gpan != fpan || (gerr == nil) != (ferr == nil) || (ferr == nil && canon(got) != canon(fresh)) {
		res.Violate(ev.Violation{Check: "batch", Kind: "depends-on-earlier-calls", Attrs: map[string]any{"step": "grow"},
			Msg:  fmt.Sprintf("builder with fields %+v, Read (target %d), AddAll %+v, Read (target %d): returned %s (err %v, panic %q); a fresh builder with all the fields returns %s (err %v)", first, t1, more, t2, canon(got), gerr, gpan, canon(fresh), ferr),
			Case: Case{Target: t2, Fields: all, Sequence: []int{t1, t2}}})
	}
}

func canon(reqs []modbus.BuilderRequest) string {
	var s []string
	for _, r := range reqs {
		var names []string
		for _, f := range r.Fields {
			names = append(names, f.Name)
		}
		sort.Strings(names)
		b := r.Bytes()
		if len(b) >= 12 { // mask the random transaction id
			if _, ok := r.Request.(interface{ ExpectedResponseLength() int }); ok && reflect.Indirect(reflect.ValueOf(r.Request)).FieldByName("TransactionID").IsValid() {
				b[0], b[1] = 0, 0
			}
		}
		s = append(s, fmt.Sprintf("%s/%d/%d/%x/%v", r.ServerAddress, r.UnitID, r.StartAddress, b, names))
	}
	sort.Strings(s)
	return fmt.Sprint(s)
}

var _ = packet.MaxCoilsInReadResponse

func run(tier string, shard, nsh int, res *ev.Result) {
	thorough := tier == "thorough"
	addrs := []uint16{0, 1, 2, 3, 121, 122, 123, 124, 125, 126, 127, 128, 1996, 1997, 1998, 1999, 2000, 2001, 2002, 2003, 65408, 65409, 65410, 65411, 65412, 65531, 65532, 65533, 65534, 65535}
	strLens := []uint8{1, 2, 3, 248, 249, 250, 251, 252, 253, 254, 255}
	var full []F // singles alphabet
	for _, srv := range []string{"A", "B", "a_1"} {
		for _, un := range []uint8{0, 1, 255} {
			for _, a := range addrs {
				for t := uint8(1); t <= 14; t++ {
					if t == 13 {
						for _, l := range strLens {
							full = append(full, F{srv, un, a, t, 0, l})
						}
					} else {
						full = append(full, F{srv, un, a, t, 3, 0})
					}
				}
			}
		}
	}
	invalid := []F{{"", 1, 5, 5, 0, 0}, {"A", 1, 5, 0, 0, 0}, {"A", 1, 5, 15, 0, 0}, {"A", 1, 5, 1, 16, 0}, {"A", 1, 5, 13, 0, 0}, {"A", 1, 5, 14, 16, 0}}
	var pairA []F
	for _, a := range addrs {
		for _, tl := range [][2]uint8{{1, 0}, {5, 0}, {7, 0}, {9, 0}, {13, 1}, {13, 3}, {13, 250}, {13, 251}, {13, 254}, {13, 255}, {14, 0}} {
			pairA = append(pairA, F{"A", 1, a, tl[0], 2, tl[1]})
		}
	}
	var tripA []F
	for _, a := range []uint16{0, 1, 120, 121, 122, 124, 125, 126, 127, 1998, 1999, 2000, 2001, 65531, 65535} {
		for _, tl := range [][2]uint8{{5, 0}, {9, 0}, {13, 250}, {14, 0}} {
			tripA = append(tripA, F{"A", 1, a, tl[0], 0, tl[1]})
		}
	}
	var jobs []func(lc *local)
	jobs = append(jobs, func(lc *local) { // sequences of Read* calls on one builder holding both kinds
		mixed := [][]F{
			{{"A", 1, 10, 5, 0, 0}, {"A", 1, 5, 14, 0, 0}, {"A", 1, 20, 9, 0, 0}, {"A", 1, 7, 14, 0, 0}},
			{{"A", 1, 5, 14, 0, 0}, {"A", 1, 10, 5, 0, 0}, {"A", 1, 7, 14, 0, 0}, {"A", 1, 20, 9, 0, 0}},
			{{"A", 1, 10, 5, 0, 0}, {"B", 2, 5, 14, 0, 0}, {"A", 1, 300, 7, 0, 0}, {"A", 1, 2500, 14, 0, 0}, {"B", 2, 11, 1, 3, 0}},
			{{"A", 1, 0, 14, 0, 0}, {"A", 1, 0, 14, 0, 0}, {"A", 1, 1, 5, 0, 0}, {"A", 1, 1, 5, 0, 0}},
		}
		orders := [][]int{{0, 4}, {4, 0}, {0, 4, 2}, {4, 0, 4}, {3, 5, 1, 7}, {6, 2, 6, 2}, {0, 0}, {4, 4}, {1, 4, 3, 6, 0, 5, 2, 7}}
		for _, m := range mixed {
			for _, o := range orders {
				evalSequence(m, o, res, lc)
			}
		}
		// fields added after a first Read* call must be part of the next one
		for _, m := range mixed {
			for cut := 1; cut < len(m); cut++ {
				for _, o := range [][2]int{{0, 0}, {4, 4}, {0, 4}, {4, 0}, {5, 6}} {
					evalGrow(m[:cut], m[cut:], o[0], o[1], res, lc)
				}
			}
		}
		// many targets, interleaved: one field for each of n targets (n = 2..17: past every power of two a growing table
		// reallocates), then one more field - at a new address - for the k-th target
		for n := 2; n <= 17; n++ {
			for k := 0; k < n; k++ {
				if n > 6 && k != 0 && k != n/2 && k != n-1 {
					continue
				}
				for _, tgt := range []int{0, 4, 7} {
					typ := uint8(5)
					if tgt < 4 {
						typ = 14
					}
					var fs []F
					for i := 0; i < n; i++ {
						fs = append(fs, F{"A", uint8(1 + i), 10, typ, 0, 0})
					}
					fs = append(fs, F{"A", uint8(1 + k), 40, typ, 0, 0})
					eval(Case{Target: tgt, Fields: fs}, res, lc)
					// and the same spread over servers instead of units
					var gs []F
					for i := 0; i < n; i++ {
						gs = append(gs, F{fmt.Sprintf("S%d", i), 1, 10, typ, 0, 0})
					}
					gs = append(gs, F{fmt.Sprintf("S%d", k), 1, 40, typ, 0, 0})
					eval(Case{Target: tgt, Fields: gs}, res, lc)
				}
			}
		}
		// every ORDER of four fields: two far-apart addresses with a repeated low one (two requests; a lower slot created
		// after a merge into an existing one), both kinds on two targets interleaved, overlapping wide fields at a batch edge
		{
			var perms [][]int
			var gen func(cur []int, used int)
			gen = func(cur []int, used int) {
				if len(cur) == 4 {
					perms = append(perms, append([]int(nil), cur...))
					return
				}
				for i := 0; i < 4; i++ {
					if used&(1<<i) == 0 {
						gen(append(cur, i), used|1<<i)
					}
				}
			}
			gen(nil, 0)
			sets := [][]F{
				{{"A", 1, 10, 5, 0, 0}, {"A", 1, 300, 5, 0, 0}, {"A", 1, 10, 6, 0, 0}, {"A", 1, 250, 7, 0, 0}},
				{{"A", 1, 10, 14, 0, 0}, {"A", 1, 3000, 14, 0, 0}, {"A", 1, 10, 14, 0, 0}, {"A", 1, 2500, 14, 0, 0}},
				{{"A", 1, 10, 5, 0, 0}, {"A", 1, 10, 14, 0, 0}, {"B", 1, 10, 14, 0, 0}, {"B", 1, 10, 5, 0, 0}},
				{{"A", 1, 10, 5, 0, 0}, {"A", 2, 12, 14, 0, 0}, {"A", 2, 14, 5, 0, 0}, {"A", 1, 16, 14, 0, 0}},
				{{"A", 1, 0, 5, 0, 0}, {"A", 1, 120, 9, 0, 0}, {"A", 1, 122, 13, 0, 10}, {"A", 1, 5, 7, 0, 0}},
				{{"A", 1, 10, 5, 0, 0}, {"A", 1, 8, 7, 0, 0}, {"A", 1, 12, 5, 0, 0}, {"A", 1, 11, 9, 0, 0}},
			}
			for _, set := range sets {
				for _, pm := range perms {
					fs := make([]F, 4)
					for i, j := range pm {
						fs[i] = set[j]
					}
					for tgt := 0; tgt < 8; tgt++ {
						eval(Case{Target: tgt, Fields: fs}, res, lc)
					}
				}
			}
			// server addresses that differ only in their scheme prefix (or in having one) are different targets
			spell := []string{"h:502", "tcp://h:502", "udp://h:502", "rtu://h:502", "tcp://h:5020"}
			for _, a := range spell {
				for _, b := range spell {
					if a == b {
						continue
					}
					for _, tgt := range []int{0, 4, 5} {
						typ := uint8(5)
						if tgt < 4 {
							typ = 14
						}
						eval(Case{Target: tgt, Fields: []F{{a, 1, 10, typ, 0, 0}, {b, 1, 11, typ, 0, 0}, {a, 1, 12, typ, 0, 0}}}, res, lc)
					}
				}
			}
		}
		// same-address fields that are not neighbours in the list
		for _, t1 := range []uint8{5, 9, 1, 13} {
			for _, t2 := range []uint8{5, 9, 1, 13} {
				for tgt := 4; tgt < 8; tgt++ {
					x := F{"A", 1, 10, t1, 9, 3}
					y := F{"A", 1, 12, 7, 0, 0}
					z := F{"A", 1, 10, t2, 2, 4}
					eval(Case{Target: tgt, Fields: []F{x, y, z}}, res, lc)
					y.Server, y.Addr = "B", 10
					eval(Case{Target: tgt, Fields: []F{x, y, z}}, res, lc)
				}
			}
		}
	})
	for target := 0; target < 8; target++ {
		target := target
		jobs = append(jobs, func(lc *local) { // empty list, singles, invalid definitions
			eval(Case{Target: target}, res, lc)
			for _, f := range full {
				eval(Case{Target: target, Fields: []F{f}}, res, lc)
			}
			for _, bad := range invalid {
				eval(Case{Target: target, Fields: []F{bad}}, res, lc)
				for _, g := range pairA[:40] {
					eval(Case{Target: target, Fields: []F{g, bad}}, res, lc)
					eval(Case{Target: target, Fields: []F{bad, g}}, res, lc)
				}
			}
		})
		jobs = append(jobs, func(lc *local) { // pairs of targets whose names / unit ids concatenate ambiguously
			var targets []F
			for _, s := range []string{"h:50", "h:502", "h:5021", "h_1", "h", "h 1"} {
				for _, u := range []uint8{0, 1, 2, 10, 11, 12, 21, 210} {
					targets = append(targets, F{Server: s, Unit: u})
				}
			}
			for _, tl := range [][2]uint8{{5, 0}, {14, 0}} {
				for _, ta := range targets {
					for _, tb := range targets {
						a := F{ta.Server, ta.Unit, 10, tl[0], 0, tl[1]}
						b := F{tb.Server, tb.Unit, 12, tl[0], 0, tl[1]}
						eval(Case{Target: target, Fields: []F{a, b}}, res, lc)
					}
				}
			}
		})
		for i0 := 0; i0 < len(pairA); i0 += 30 {
			i0 := i0
			jobs = append(jobs, func(lc *local) { // pairs
				for i := i0; i < i0+30 && i < len(pairA); i++ {
					for _, g := range pairA {
						for _, v := range [][2]any{{"A", uint8(1)}, {"B", uint8(1)}, {"A", uint8(2)}, {"a_1", uint8(1)}} {
							g2 := g
							g2.Server, g2.Unit = v[0].(string), v[1].(uint8)
							eval(Case{Target: target, Fields: []F{pairA[i], g2}}, res, lc)
						}
					}
				}
			})
		}
		if thorough {
			for i := range tripA {
				i := i
				jobs = append(jobs, func(lc *local) { // triples
					for _, g := range tripA {
						for _, h := range tripA {
							eval(Case{Target: target, Fields: []F{tripA[i], g, h}}, res, lc)
							h2 := h
							h2.Unit = 2
							eval(Case{Target: target, Fields: []F{tripA[i], g, h2}}, res, lc)
						}
					}
				})
			}
			// quadruples over a small alphabet
			quad := []F{}
			for _, a := range []uint16{0, 124, 125, 126, 250, 65535} {
				for _, tl := range [][2]uint8{{5, 0}, {9, 0}, {14, 0}} {
					quad = append(quad, F{"A", 1, a, tl[0], 0, tl[1]})
				}
			}
			jobs = append(jobs, func(lc *local) {
				for _, a := range quad {
					for _, b := range quad {
						for _, c3 := range quad {
							for _, d := range quad {
								eval(Case{Target: target, Fields: []F{a, b, c3, d}}, res, lc)
							}
						}
					}
				}
			})
		}
		// chain families
		jobs = append(jobs, func(lc *local) {
			strides := []int{1, 2, 3, 4, 62, 63, 124, 125, 126}
			types := [][2]uint8{{5, 0}, {7, 0}, {9, 0}, {13, 5}}
			if target < 4 {
				strides = []int{1, 2, 999, 1000, 1999, 2000, 2001}
				types = [][2]uint8{{14, 0}}
			}
			for _, st := range strides {
				for _, tl := range types {
					for _, base := range []int{0, 7, 65535 - 130*1} {
						for k := 1; k <= 130; k++ {
							if !thorough && k > 12 && k%9 != 0 && k < 124 {
								continue
							}
							var fs []F
							for j := 0; j < k; j++ {
								a := base + j*st
								if a > 65535 {
									break
								}
								fs = append(fs, F{"A", 1, uint16(a), tl[0], 0, tl[1]})
							}
							// reversed and interleaved orders exercise the sort
							eval(Case{Target: target, Fields: fs}, res, lc)
							rev := make([]F, len(fs))
							for j := range fs {
								rev[len(fs)-1-j] = fs[j]
							}
							eval(Case{Target: target, Fields: rev}, res, lc)
						}
					}
				}
			}
		})
	}
	var mu sync.Mutex
	var tot local
	ev.Par(len(jobs), runtime.NumCPU(), func(i int) {
		var lc local
		jobs[i](&lc)
		mu.Lock()
		tot.evals += lc.evals
		tot.ok += lc.ok
		tot.multi += lc.multi
		mu.Unlock()
	})
	res.Add("evaluations", tot.evals)
	res.Add("builds_without_error", tot.ok)
	res.Add("multi_group_cases", tot.multi)
	res.DistinctAdd("nontrivial", tot.ok)
	res.Axis("split target", "full (FC1-4 x TCP/RTU)", 8)
	res.Axis("single fields", "14 types (11 string lengths) x 30 addresses x 3 servers x 3 units + 6 invalid definitions", int64(len(full)))
	res.Axis("pairs", "9 type variants x 30 addresses, second field over 4 server/unit variants", int64(len(pairA)*len(pairA)*4))
	res.Axis("triples / quadruples (thorough)", "60^3 x 2 / 18^4", int64(len(tripA)*len(tripA)*len(tripA)*2))
	res.Axis("chains", "k=1..130 fields x strides around the 125 / 2000 limits x 3 bases x forward/reversed", 130)
	res.Sample(Case{Target: 4, Fields: []F{{"A", 1, 0, 5, 0, 0}, {"A", 1, 125, 5, 0, 0}}})
	res.Sample(Case{Target: 0, Fields: []F{{"A", 1, 0, 14, 0, 0}, {"A", 1, 1999, 14, 0, 0}, {"A", 2, 5, 14, 0, 0}}})
}

func replay(check string, raw json.RawMessage, res *ev.Result) {
	var c Case
	json.Unmarshal(raw, &c)
	var lc local
	if len(c.Sequence) > 0 {
		evalSequence(c.Fields, c.Sequence, res, &lc)
		return
	}
	eval(c, res, &lc)
}

func main() {
	ev.Main(ev.Spec{
		Property: prop, Level: "exploration",
		Rule: "field lists enumerated over the declared alphabets (singles full, pairs, triples/quadruples in thorough, chain families) for all 8 split targets; oracle = the property restated in int arithmetic, order-insensitive. " +
			"non-trivial = builds that returned requests (every one checked against all clauses), distinct by construction",
		Assumptions: []string{"an error return is always acceptable to this property (C05 demands success for valid fields)", "a request whose window leaves the 16-bit address space is not rejected by this oracle (the statement does not constrain it)"},
		Run:         run, Replay: replay,
		Vacuity: func(tier string, res *ev.Result) string {
			if res.Counters["builds_without_error"] < 10000 || res.Counters["multi_group_cases"] < 1000 {
				return "too few successful builds / multi-group cases"
			}
			return ""
		},
	})
}
