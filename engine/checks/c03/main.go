// C03 — CRC-16 equals the Modbus CRC for every message and is enforced on RTU frames.
// Explicit-state search over the 16-bit CRC register driven through the real packet.CRC16, plus trailer enforcement.
package main

import (
	"encoding/json"
	"errors"
	"fmt"
	modbus "github.com/aldas/go-modbus-client"
	"runtime"
	"sync/atomic"

	"github.com/aldas/go-modbus-client/packet"
	"verif/ev"
	"verif/lib"
	"verif/spec"
)

const prop = "C03"

type crcCase struct {
	Data string `json:"data_hex"`
}

type trailerCase struct {
	Shape   string `json:"shape"`
	Frame   string `json:"frame_hex"` // frame with the correct trailer
	Trailer int    `json:"trailer"`
	Request bool   `json:"request"`
}

func hexb(s string) []byte {
	var b []byte
	fmt.Sscanf(s, "%x", &b)
	return b
}

func checkCRC(data []byte, res *ev.Result, sub string) bool {
	got, want := packet.CRC16(data), spec.CRC(data)
	if got != want {
		res.Violate(ev.Violation{Check: sub, Kind: "wrong-crc", Attrs: map[string]any{"len_class": lenClass(len(data))},
			Msg:  fmt.Sprintf("CRC16(%s) = %#04x, Modbus CRC is %#04x", ev.Hex(data), got, want),
			Case: crcCase{Data: fmt.Sprintf("%x", data)}})
		return false
	}
	return true
}

func lenClass(n int) string {
	switch {
	case n <= 3:
		return fmt.Sprint(n)
	case n <= 40:
		return "4..40"
	case n <= 256:
		return "41..256"
	}
	return ">256"
}

// stateSearch: all 65536 two-byte prefixes reach all 65536 states (bijection), and every (state, byte) transition
// executed on the real function equals the reference step.
func stateSearch(res *ev.Result) {
	reached := make([]uint32, 65536) // state -> count
	stateOf := make([]uint16, 65536) // prefix -> state
	buf := make([]byte, 2)
	for p := 0; p < 65536; p++ {
		buf[0], buf[1] = byte(p>>8), byte(p)
		s := packet.CRC16(buf)
		stateOf[p] = s
		reached[s]++
		checkCRC(buf, res, "state-search")
	}
	distinct := 0
	for _, c := range reached {
		if c > 0 {
			distinct++
		}
	}
	res.Add("states", int64(distinct))
	if distinct != 65536 {
		res.Violate(ev.Violation{Check: "state-search", Kind: "not-bijective", Attrs: map[string]any{},
			Msg: fmt.Sprintf("2-byte prefixes reach only %d of 65536 CRC states", distinct), Case: crcCase{}})
	}
	var trans int64
	w := runtime.NumCPU()
	ev.Par(256, w, func(hi int) {
		b3 := make([]byte, 3)
		var n int64
		for lo := 0; lo < 256; lo++ {
			p := hi<<8 | lo
			b3[0], b3[1] = byte(hi), byte(lo)
			st := stateOf[p]
			for b := 0; b < 256; b++ {
				b3[2] = byte(b)
				got := packet.CRC16(b3)
				if want := spec.Step(st, byte(b)); got != want {
					res.Violate(ev.Violation{Check: "state-search", Kind: "wrong-transition", Attrs: map[string]any{},
						Msg:  fmt.Sprintf("from state %#04x (prefix %02x%02x) byte %#02x: CRC16 gives %#04x, reference step %#04x", st, hi, lo, b, got, want),
						Case: crcCase{Data: fmt.Sprintf("%x", b3)}})
				}
				n++
			}
		}
		atomic.AddInt64(&trans, n)
	})
	res.Add("transitions", trans)
	res.Add("evaluations", trans+65536)
	// strings of length 0 and 1
	checkCRC(nil, res, "short")
	for b := 0; b < 256; b++ {
		checkCRC([]byte{byte(b)}, res, "short")
	}
	res.Add("evaluations", 257)
}

// foldCheck: the implementation is a left fold independent of position/total length: for every length 0..maxLen and
// every last byte over 8 prefix families CRC16(prefix||b) == step(CRC16(prefix), b) and equals the reference.
func foldCheck(res *ev.Result, maxLen int) {
	fams := []func(i int) byte{
		func(i int) byte { return 0 },
		func(i int) byte { return 0xFF },
		func(i int) byte { return byte(i) },
		func(i int) byte { return byte(255 - i) },
		func(i int) byte { return byte(i*37 + 11) },
		func(i int) byte { return byte(0xA5 ^ i>>1) },
		func(i int) byte {
			if i%2 == 0 {
				return 0x55
			}
			return 0xAA
		},
		func(i int) byte { return byte((i*i + 3*i) >> 2) },
	}
	var n int64
	ev.Par(len(fams), len(fams), func(f int) {
		buf := make([]byte, 0, maxLen+1)
		var cnt int64
		for l := 0; l <= maxLen; l++ {
			pre := packet.CRC16(buf)
			if pre != spec.CRC(buf) {
				checkCRC(buf, res, "fold")
			}
			for b := 0; b < 256; b++ {
				x := append(buf, byte(b))
				got := packet.CRC16(x)
				if got != spec.Step(pre, byte(b)) || got != spec.CRC(x) {
					checkCRC(x, res, "fold")
					res.Violate(ev.Violation{Check: "fold", Kind: "not-a-fold", Attrs: map[string]any{"len_class": lenClass(len(x))},
						Msg:  fmt.Sprintf("len %d family %d last byte %#02x: CRC16 %#04x != step(CRC16(prefix),b) %#04x", len(x), f, b, got, spec.Step(pre, byte(b))),
						Case: crcCase{Data: fmt.Sprintf("%x", x)}})
				}
				cnt++
			}
			buf = append(buf, fams[f](l))
		}
		atomic.AddInt64(&n, cnt)
	})
	res.Add("evaluations", n)
	res.Add("fold_checks", n)
}

type shape struct {
	name    string
	frame   []byte // with correct CRC
	request bool
}

// shapes: every RTU frame shape the encoders emit (requests, responses, exception), small and maximal sizes,
// produced by the library's own Bytes() so that "emits CRC low byte first" is checked on the way.
func shapes(res *ev.Result) []shape {
	var out []shape
	pat := func(n int) []byte {
		b := make([]byte, n)
		for i := range b {
			b[i] = byte(i*13 + 7)
		}
		return b
	}
	add := func(name string, b []byte, request bool) {
		n := len(b)
		c := spec.CRC(b[:n-2])
		if b[n-2] != byte(c) || b[n-1] != byte(c>>8) {
			res.Violate(ev.Violation{Check: "emission", Kind: "bad-trailer", Attrs: map[string]any{"shape": name},
				Msg: fmt.Sprintf("%s: Bytes() = %s does not end with CRC %02x %02x", name, ev.Hex(b), byte(c), byte(c>>8)), Case: trailerCase{Shape: name, Frame: fmt.Sprintf("%x", b)}})
		}
		out = append(out, shape{name, b, request})
	}
	reqs := []spec.Req{
		{FC: 1, Unit: 1, Addr: 0x13, Qty: 1}, {FC: 1, Unit: 0xFF, Addr: 0xFFF0, Qty: 125},
		{FC: 2, Unit: 2, Addr: 7, Qty: 9}, {FC: 2, Unit: 0, Addr: 0, Qty: 125},
		{FC: 3, Unit: 3, Addr: 0x6B, Qty: 3}, {FC: 3, Unit: 247, Addr: 65410, Qty: 125},
		{FC: 4, Unit: 4, Addr: 8, Qty: 1}, {FC: 4, Unit: 9, Addr: 1000, Qty: 125},
		{FC: 5, Unit: 5, Addr: 0xAC, Value: spec.CoilOn}, {FC: 5, Unit: 5, Addr: 0xFFFF, Value: spec.CoilOff},
		{FC: 6, Unit: 6, Addr: 1, Value: 3}, {FC: 6, Unit: 6, Addr: 0xFFFF, Value: 0xFFFF},
		{FC: 15, Unit: 7, Addr: 0x13, Qty: 10, Data: []byte{0xCD, 0x01}}, {FC: 15, Unit: 7, Addr: 0, Qty: 1968, Data: pat(246)},
		{FC: 16, Unit: 8, Addr: 1, Qty: 2, Data: []byte{0, 10, 1, 2}}, {FC: 16, Unit: 8, Addr: 1, Qty: 123, Data: pat(246)},
		{FC: 17, Unit: 9}, {FC: 17, Unit: 255},
		{FC: 23, Unit: 10, Addr: 3, Qty: 6, WAddr: 14, WQty: 3, Data: []byte{0, 255, 0, 255, 0, 255}}, {FC: 23, Unit: 10, Addr: 3, Qty: 124, WAddr: 14, WQty: 121, Data: pat(242)},
	}
	for i, r := range reqs {
		q, err := lib.NewRequest(r, true)
		if err != nil || lib.IsNil(q) {
			res.Note(fmt.Sprintf("constructor refused legal request %+v: %v", r, err))
			continue
		}
		add(fmt.Sprintf("req-fc%d-%d", r.FC, i%2), q.Bytes(), true)
	}
	// responses: built as library values
	resps := []packet.Response{
		packet.ReadCoilsResponseRTU{ReadCoilsResponse: packet.ReadCoilsResponse{UnitID: 1, CoilsByteLength: 1, Data: []byte{0x05}}},
		packet.ReadCoilsResponseRTU{ReadCoilsResponse: packet.ReadCoilsResponse{UnitID: 1, CoilsByteLength: 250, Data: pat(250)}},
		packet.ReadDiscreteInputsResponseRTU{ReadDiscreteInputsResponse: packet.ReadDiscreteInputsResponse{UnitID: 2, InputsByteLength: 2, Data: []byte{0xCD, 0x6B}}},
		packet.ReadDiscreteInputsResponseRTU{ReadDiscreteInputsResponse: packet.ReadDiscreteInputsResponse{UnitID: 2, InputsByteLength: 250, Data: pat(250)}},
		packet.ReadHoldingRegistersResponseRTU{ReadHoldingRegistersResponse: packet.ReadHoldingRegistersResponse{UnitID: 3, RegisterByteLen: 2, Data: []byte{1, 2}}},
		packet.ReadHoldingRegistersResponseRTU{ReadHoldingRegistersResponse: packet.ReadHoldingRegistersResponse{UnitID: 3, RegisterByteLen: 250, Data: pat(250)}},
		packet.ReadInputRegistersResponseRTU{ReadInputRegistersResponse: packet.ReadInputRegistersResponse{UnitID: 4, RegisterByteLen: 2, Data: []byte{0xFF, 0xFF}}},
		packet.ReadInputRegistersResponseRTU{ReadInputRegistersResponse: packet.ReadInputRegistersResponse{UnitID: 4, RegisterByteLen: 250, Data: pat(250)}},
		packet.WriteSingleCoilResponseRTU{WriteSingleCoilResponse: packet.WriteSingleCoilResponse{UnitID: 5, StartAddress: 0xAC, CoilState: true}},
		packet.WriteSingleRegisterResponseRTU{WriteSingleRegisterResponse: packet.WriteSingleRegisterResponse{UnitID: 6, Address: 1, Data: [2]byte{0, 3}}},
		packet.WriteMultipleCoilsResponseRTU{WriteMultipleCoilsResponse: packet.WriteMultipleCoilsResponse{UnitID: 7, StartAddress: 0x13, CoilCount: 10}},
		packet.WriteMultipleRegistersResponseRTU{WriteMultipleRegistersResponse: packet.WriteMultipleRegistersResponse{UnitID: 8, StartAddress: 1, RegisterCount: 2}},
		packet.ReadServerIDResponseRTU{ReadServerIDResponse: packet.ReadServerIDResponse{UnitID: 9, Status: 0xFF, ServerID: []byte{1, 2}, AdditionalData: []byte{3}}},
		packet.ReadServerIDResponseRTU{ReadServerIDResponse: packet.ReadServerIDResponse{UnitID: 9, Status: 0, ServerID: pat(100), AdditionalData: pat(100)}},
		packet.ReadWriteMultipleRegistersResponseRTU{ReadWriteMultipleRegistersResponse: packet.ReadWriteMultipleRegistersResponse{UnitID: 10, RegisterByteLen: 2, Data: []byte{0xCA, 0xFE}}},
		packet.ReadWriteMultipleRegistersResponseRTU{ReadWriteMultipleRegistersResponse: packet.ReadWriteMultipleRegistersResponse{UnitID: 10, RegisterByteLen: 250, Data: pat(250)}},
	}
	for i, r := range resps {
		add(fmt.Sprintf("resp-fc%d-%d", r.FunctionCode(), i), r.Bytes(), false)
	}
	add("exception", packet.ErrorResponseRTU{UnitID: 0x0A, Function: 1, Code: 2}.Bytes(), false)
	add("exception-parse", packet.NewErrorParseRTU(3, "x").Bytes(), false)
	return out
}

func evalTrailer(c trailerCase, frame []byte, res *ev.Result) {
	n := len(frame)
	good := frame
	mut := append([]byte(nil), frame...)
	mut[n-2], mut[n-1] = byte(c.Trailer), byte(c.Trailer>>8)
	want := spec.CRC(good[:n-2])
	consistent := uint16(c.Trailer) == want
	var v any
	var err error
	var v0 any
	var err0 error
	if c.Request {
		v, err = packet.ParseRTURequestWithCRC(mut)
		v0, err0 = packet.ParseRTURequest(mut)
	} else {
		v, err = packet.ParseRTUResponseWithCRC(mut)
		v0, err0 = packet.ParseRTUResponse(mut)
	}
	isCRCErr := errors.Is(err, packet.ErrInvalidCRC)
	attrs := map[string]any{"shape": c.Shape}
	switch {
	case !consistent && !isCRCErr:
		res.Violate(ev.Violation{Check: "enforcement", Kind: "accepts-bad-crc", Attrs: attrs,
			Msg: fmt.Sprintf("%s: trailer %#04x != CRC %#04x but CRC-verifying parser returned (%T, %v)", c.Shape, c.Trailer, want, v, err), Case: c})
	case consistent && isCRCErr:
		res.Violate(ev.Violation{Check: "enforcement", Kind: "rejects-good-crc", Attrs: attrs,
			Msg: fmt.Sprintf("%s: trailer equals CRC %#04x but parser returned ErrInvalidCRC", c.Shape, want), Case: c})
	case consistent:
		// must behave exactly like the non-verifying parser
		if (err == nil) != (err0 == nil) || (err != nil && err.Error() != err0.Error()) || fmt.Sprintf("%#v", v) != fmt.Sprintf("%#v", v0) {
			res.Violate(ev.Violation{Check: "enforcement", Kind: "differs-from-plain-parser", Attrs: attrs,
				Msg: fmt.Sprintf("%s: with good CRC WithCRC parser gives (%#v,%v), plain parser (%#v,%v)", c.Shape, v, err, v0, err0), Case: c})
		}
	}
}

func enforcement(res *ev.Result, shs []shape) {
	var n int64
	ev.Par(len(shs), runtime.NumCPU(), func(i int) {
		s := shs[i]
		c := trailerCase{Shape: s.name, Frame: fmt.Sprintf("%x", s.frame), Request: s.request}
		for t := 0; t < 65536; t++ {
			c.Trailer = t
			evalTrailer(c, s.frame, res)
		}
		atomic.AddInt64(&n, 65536)
	})
	res.Add("evaluations", n)
	res.Add("trailer_cases", n)
	res.DistinctAdd("nontrivial", n)
}

// emissionSweep: every RTU frame size the library agrees to emit, not only the boundary shapes - every request the
// constructors accept over the whole quantity / count axis (including the counts above the specification's limits that
// the constructors currently let through: those frames are emitted too) and every response payload length 1..255; each
// must end with the reference CRC of everything before it, low byte first.
func emissionSweep(res *ev.Result) {
	n := int64(0)
	pat := func(k int) []byte {
		b := make([]byte, k)
		for i := range b {
			b[i] = byte(i*29 + 3)
		}
		return b
	}
	check := func(name string, b []byte) {
		n++
		if len(b) < 4 {
			res.Violate(ev.Violation{Check: "emission", Kind: "frame-too-short", Attrs: map[string]any{"shape": name}, Msg: fmt.Sprintf("%s: Bytes() = %s", name, ev.Hex(b)), Case: trailerCase{Shape: name, Frame: fmt.Sprintf("%x", b)}})
			return
		}
		k := len(b)
		c := spec.CRC(b[:k-2])
		if b[k-2] != byte(c) || b[k-1] != byte(c>>8) {
			res.Violate(ev.Violation{Check: "emission", Kind: "bad-trailer", Attrs: map[string]any{"shape": name},
				Msg: fmt.Sprintf("%s: Bytes() = %s does not end with CRC %02x %02x of the preceding bytes", name, ev.Hex(b), byte(c), byte(c>>8)), Case: trailerCase{Shape: name, Frame: fmt.Sprintf("%x", b)}})
		}
	}
	try := func(name string, r spec.Req) {
		var q packet.Request
		var err error
		func() {
			defer func() {
				if rec := recover(); rec != nil {
					err = fmt.Errorf("panic: %v", rec)
				}
			}()
			q, err = lib.NewRequest(r, true)
			if err == nil && !lib.IsNil(q) {
				check(name, q.Bytes())
			}
		}()
	}
	for _, unit := range []uint8{0, 1, 247, 255} {
		for _, fc := range []uint8{1, 2, 3, 4} {
			for _, q := range []uint16{1, 2, 7, 8, 9, 124, 125, 126, 1999, 2000, 2001} {
				try(fmt.Sprintf("sweep-req-fc%d-q%d", fc, q), spec.Req{FC: fc, Unit: unit, Addr: 0xFFF0, Qty: q})
			}
		}
	}
	for q := 1; q <= 1970; q++ {
		try(fmt.Sprintf("sweep-req-fc15-q%d", q), spec.Req{FC: 15, Unit: 7, Addr: 3, Qty: uint16(q), Data: pat((q + 7) / 8)})
	}
	for q := 1; q <= 127; q++ {
		try(fmt.Sprintf("sweep-req-fc16-q%d", q), spec.Req{FC: 16, Unit: 8, Addr: 1, Qty: uint16(q), Data: pat(2 * q)})
		for _, rq := range []uint16{1, 125} {
			try(fmt.Sprintf("sweep-req-fc23-r%d-w%d", rq, q), spec.Req{FC: 23, Unit: 10, Addr: 3, Qty: rq, WAddr: 14, WQty: uint16(q), Data: pat(2 * q)})
		}
	}
	for bl := 1; bl <= 255; bl++ {
		d := pat(bl)
		safe := func(name string, f func() []byte) {
			defer func() {
				if rec := recover(); rec != nil {
					res.Violate(ev.Violation{Check: "emission", Kind: "encoder-panic", Attrs: map[string]any{"shape": name}, Msg: fmt.Sprintf("%s: Bytes() panicked: %v", name, rec), Case: trailerCase{Shape: name}})
				}
			}()
			check(name, f())
		}
		if bl <= 250 {
			safe(fmt.Sprintf("sweep-resp-fc1-b%d", bl), func() []byte {
				return packet.ReadCoilsResponseRTU{ReadCoilsResponse: packet.ReadCoilsResponse{UnitID: 1, CoilsByteLength: uint8(bl), Data: d}}.Bytes()
			})
			safe(fmt.Sprintf("sweep-resp-fc2-b%d", bl), func() []byte {
				return packet.ReadDiscreteInputsResponseRTU{ReadDiscreteInputsResponse: packet.ReadDiscreteInputsResponse{UnitID: 2, InputsByteLength: uint8(bl), Data: d}}.Bytes()
			})
			if bl%2 == 0 {
				safe(fmt.Sprintf("sweep-resp-fc3-b%d", bl), func() []byte {
					return packet.ReadHoldingRegistersResponseRTU{ReadHoldingRegistersResponse: packet.ReadHoldingRegistersResponse{UnitID: 3, RegisterByteLen: uint8(bl), Data: d}}.Bytes()
				})
				safe(fmt.Sprintf("sweep-resp-fc4-b%d", bl), func() []byte {
					return packet.ReadInputRegistersResponseRTU{ReadInputRegistersResponse: packet.ReadInputRegistersResponse{UnitID: 4, RegisterByteLen: uint8(bl), Data: d}}.Bytes()
				})
				safe(fmt.Sprintf("sweep-resp-fc23-b%d", bl), func() []byte {
					return packet.ReadWriteMultipleRegistersResponseRTU{ReadWriteMultipleRegistersResponse: packet.ReadWriteMultipleRegistersResponse{UnitID: 10, RegisterByteLen: uint8(bl), Data: d}}.Bytes()
				})
			}
		}
		if bl <= 250 && (bl <= 8 || bl%16 == 0) {
			// hand-built response values whose byte-length field was left unset or is stale: whatever frame the encoder
			// produces for them, its trailer must still be the CRC of the bytes before it
			for _, stale := range []int{0, bl + 1, bl - 1} {
				if stale < 0 || stale > 255 || stale == bl {
					continue
				}
				st := uint8(stale)
				tolerant := func(name string, f func() []byte) {
					defer func() { recover() }() // an encoder may refuse an inconsistent value by panicking; emitting a bad CRC is the point here
					check(name, f())
				}
				tolerant(fmt.Sprintf("sweep-resp-fc1-b%d-field%d", bl, stale), func() []byte {
					return packet.ReadCoilsResponseRTU{ReadCoilsResponse: packet.ReadCoilsResponse{UnitID: 1, CoilsByteLength: st, Data: d}}.Bytes()
				})
				tolerant(fmt.Sprintf("sweep-resp-fc2-b%d-field%d", bl, stale), func() []byte {
					return packet.ReadDiscreteInputsResponseRTU{ReadDiscreteInputsResponse: packet.ReadDiscreteInputsResponse{UnitID: 2, InputsByteLength: st, Data: d}}.Bytes()
				})
				tolerant(fmt.Sprintf("sweep-resp-fc3-b%d-field%d", bl, stale), func() []byte {
					return packet.ReadHoldingRegistersResponseRTU{ReadHoldingRegistersResponse: packet.ReadHoldingRegistersResponse{UnitID: 3, RegisterByteLen: st, Data: d}}.Bytes()
				})
				tolerant(fmt.Sprintf("sweep-resp-fc4-b%d-field%d", bl, stale), func() []byte {
					return packet.ReadInputRegistersResponseRTU{ReadInputRegistersResponse: packet.ReadInputRegistersResponse{UnitID: 4, RegisterByteLen: st, Data: d}}.Bytes()
				})
				tolerant(fmt.Sprintf("sweep-resp-fc23-b%d-field%d", bl, stale), func() []byte {
					return packet.ReadWriteMultipleRegistersResponseRTU{ReadWriteMultipleRegistersResponse: packet.ReadWriteMultipleRegistersResponse{UnitID: 10, RegisterByteLen: st, Data: d}}.Bytes()
				})
			}
		}
		if bl <= 120 {
			safe(fmt.Sprintf("sweep-resp-fc17-id%d", bl), func() []byte {
				return packet.ReadServerIDResponseRTU{ReadServerIDResponse: packet.ReadServerIDResponse{UnitID: 9, Status: 0xFF, ServerID: d, AdditionalData: pat(bl % 7)}}.Bytes()
			})
		}
	}
	for fc := 0; fc < 256; fc++ {
		for code := 0; code < 256; code++ {
			check(fmt.Sprintf("sweep-exception-fc%d-c%d", fc, code), packet.ErrorResponseRTU{UnitID: uint8(fc ^ code), Function: uint8(fc), Code: uint8(code)}.Bytes())
		}
	}
	// requests that did not come from a constructor: FC15 struct literals whose last data byte has bits set beyond the
	// coil count (a request parsed off a sloppy master and re-encoded), every count 1..16 x every value of the last byte
	for cnt := 1; cnt <= 16; cnt++ {
		for v := 0; v < 256; v++ {
			data := []byte{byte(v)}
			if cnt > 8 {
				data = []byte{0xA5, byte(v)}
			}
			name := fmt.Sprintf("literal-fc15-count%d-last%02x", cnt, v)
			func() {
				defer func() {
					if rec := recover(); rec != nil {
						res.Violate(ev.Violation{Check: "emission", Kind: "encoder-panic", Attrs: map[string]any{"shape": name}, Msg: fmt.Sprintf("%s: Bytes() panicked: %v", name, rec), Case: trailerCase{Shape: name}})
					}
				}()
				check(name, packet.WriteMultipleCoilsRequestRTU{WriteMultipleCoilsRequest: packet.WriteMultipleCoilsRequest{UnitID: 0x11, StartAddress: 0x0410, CoilCount: uint16(cnt), Data: data}}.Bytes())
			}()
		}
	}
	// requests made by the builder, re-addressed through their exported fields before they are encoded
	for _, tgt := range []string{"coils", "holding"} {
		b := modbus.NewRequestBuilder("s", 1)
		b.Add(&modbus.BField{Field: modbus.Field{Name: "c", ServerAddress: "s", UnitID: 1, Address: 10, Type: modbus.FieldTypeCoil}})
		b.Add(&modbus.BField{Field: modbus.Field{Name: "r", ServerAddress: "s", UnitID: 1, Address: 10, Type: modbus.FieldTypeUint16}})
		var reqs []modbus.BuilderRequest
		if tgt == "coils" {
			reqs, _ = b.ReadCoilsRTU()
		} else {
			reqs, _ = b.ReadHoldingRegistersRTU()
		}
		for _, r := range reqs {
			check("builder-"+tgt, r.Bytes())
			for _, u := range []uint8{2, 0, 255, 0x41} {
				r.UnitID = u
				check(fmt.Sprintf("builder-%s-unit-set-to-%d", tgt, u), r.Bytes())
				var pr packet.Request = r
				check(fmt.Sprintf("builder-%s-unit-set-to-%d-as-request", tgt, u), pr.Bytes())
			}
			r.StartAddress, r.ServerAddress = 77, "other"
			check("builder-"+tgt+"-start-and-server-set", r.Bytes())
		}
	}
	// the same exception emitted for every unit in turn (and back), for every function: what is emitted for one unit
	// must not depend on what was emitted for another
	for fc := 1; fc < 256; fc++ {
		codes := []int{1}
		if fc == 1 || fc == 3 || fc == 16 || fc == 0x2B || fc == 0x83 {
			codes = []int{1, 2, 3, 4, 6, 11}
		}
		for _, code := range codes {
			for u := 0; u < 256; u++ {
				check(fmt.Sprintf("sweep-exception-units-fc%d-c%d-u%d", fc, code, u), packet.ErrorResponseRTU{UnitID: uint8(u), Function: uint8(fc), Code: uint8(code)}.Bytes())
			}
			for u := 255; u >= 0; u -= 3 {
				check(fmt.Sprintf("sweep-exception-units-fc%d-c%d-u%d-back", fc, code, u), packet.ErrorResponseRTU{UnitID: uint8(u), Function: uint8(fc), Code: uint8(code)}.Bytes())
			}
		}
	}
	res.Add("emission_frames", n)
	res.Add("evaluations", n)
	res.Axis("emitted RTU frames: request sizes over the whole accepted count axis, response payload lengths 1..250, all 256x256 exceptions", "full", n)
}

// specialStates: from the remainders 0x0000, 0x0001, 0x8000, 0xFFFF, 0xA001 and the catalogue check value (each reached
// through the implementation by the 2-byte prefix that leads to it) every 2-byte continuation and every 3-byte
// continuation with a zero in the middle is executed: an implementation that treats a zero remainder or zero bytes
// specially (skipping, caching, early exit) differs here although every single transition is right.
func specialStates(res *ev.Result) {
	prefixOf := map[uint16][2]byte{}
	for a := 0; a < 256; a++ {
		for b := 0; b < 256; b++ {
			prefixOf[packet.CRC16([]byte{byte(a), byte(b)})] = [2]byte{byte(a), byte(b)}
		}
	}
	n := int64(0)
	for _, st := range []uint16{0x0000, 0x0001, 0x8000, 0xFFFF, 0xA001, 0x4B37} {
		p, ok := prefixOf[st]
		if !ok {
			continue // (the state search reports a non-bijective CRC16 on its own)
		}
		for b1 := 0; b1 < 256; b1++ {
			for b2 := 0; b2 < 256; b2++ {
				for _, msg := range [][]byte{{p[0], p[1], byte(b1), byte(b2)}, {p[0], p[1], byte(b1), 0, byte(b2)}, {p[0], p[1], 0, 0, byte(b1), byte(b2)}} {
					n++
					checkCRC(msg, res, "special-state")
				}
			}
		}
	}
	res.Add("evaluations", n)
	res.Axis("continuations from 6 special remainders", "all 2-byte continuations, with and without interposed zero bytes", n)
}

type trailerShape struct {
	name string
	body []byte
}

// earlyProbe is the first thing the process does with the library - before anything has computed a CRC: the
// CRC-verifying parsers must refuse wrong trailers from the very first call on (a lazily initialised table, a cache that is
// only valid after a first encode).
func earlyProbe(res *ev.Result) {
	for _, f := range []struct {
		req   bool
		frame []byte
	}{
		{false, []byte{0x01, 3, 2, 0x12, 0x34, 0xDE, 0xAD}},
		{true, []byte{0x01, 3, 0, 0x6B, 0, 3, 0xBE, 0xEF}},
		{false, []byte{0x0A, 0x83, 2, 0x00, 0x00}},
		{true, []byte{0x11, 6, 0, 1, 0, 3, 0xFF, 0xFF}},
	} {
		c := trailerCase{Shape: "first-call-in-process", Frame: fmt.Sprintf("%x", f.frame), Request: f.req, Trailer: int(f.frame[len(f.frame)-2]) | int(f.frame[len(f.frame)-1])<<8}
		evalTrailer(c, f.frame, res)
	}
}

// acceptanceSweep: frames built by the reference (not by the library) with a CORRECT trailer, over every 16-bit data
// value - so that every trailer value occurs, in particular trailers ending in 0xFF / 0x00 and trailers equal to data
// bytes: the CRC-verifying parsers must accept them exactly like the plain parsers do.
func acceptanceSweep(res *ev.Result) {
	var n int64
	type mkf struct {
		name    string
		request bool
		f       func(v uint16) []byte
	}
	hi := func(v uint16) byte { return byte(v >> 8) }
	lo := func(v uint16) byte { return byte(v) }
	shapes := []mkf{
		{"resp-fc3-1reg", false, func(v uint16) []byte { return []byte{0x01, 3, 2, hi(v), lo(v)} }},
		{"resp-fc1-2bytes", false, func(v uint16) []byte { return []byte{0x11, 1, 2, hi(v), lo(v)} }},
		{"resp-fc6-echo", false, func(v uint16) []byte { return []byte{0x21, 6, 0, 9, hi(v), lo(v)} }},
		{"resp-fc3-2reg", false, func(v uint16) []byte { return []byte{0xF7, 3, 4, hi(v), lo(v), lo(v), hi(v)} }},
		{"req-fc6", true, func(v uint16) []byte { return []byte{0x01, 6, 0, 9, hi(v), lo(v)} }},
		{"req-fc3-addr", true, func(v uint16) []byte { return []byte{0x0A, 3, hi(v), lo(v), 0, 1} }},
	}
	// frames that contain the CRC of their own prefix as DATA, followed by a repetition of the header: anything that
	// recognises "a complete frame" inside a longer one (an echoed request, a shorter reply) by its CRC alone meets its
	// match here. Register responses with 5 and 8 registers; the embedded CRC at every data offset; every trailer.
	var adv []trailerShape
	for _, regs := range []int{5, 8} {
		for k := 3; k+4 <= 3+2*regs; k++ {
			body := []byte{0x11, 3, byte(2 * regs)}
			for i := 0; i < 2*regs; i++ {
				body = append(body, byte(0x6B+i*17))
			}
			body[3], body[4], body[5] = 0x0A, 0x00, 0x6B // (looks like the start of a request when read as one)
			c := spec.CRC(body[:k])
			body[k], body[k+1] = byte(c), byte(c>>8)
			body[k+2], body[k+3] = body[0], body[1]
			adv = append(adv, trailerShape{fmt.Sprintf("adversarial-resp-fc3-%dregs-crc-at-%d", regs, k), append([]byte(nil), body...)})
		}
	}
	// the longest frames there are: 254, 255 and 256 bytes in all (a Read Server ID response / a write-multiple-registers
	// request of that size), every trailer
	for _, total := range []int{254, 255, 256} {
		resp := []byte{0x21, 17, byte(total - 5)}
		for i := 0; i < total-5; i++ {
			resp = append(resp, byte(i*31+7))
		}
		adv = append(adv, trailerShape{fmt.Sprintf("longest-resp-fc17-%d-bytes", total), resp})
	}
	ev.Par(len(adv), runtime.NumCPU(), func(i int) {
		a := adv[i]
		for t := 0; t < 65536; t++ {
			frame := append(append([]byte(nil), a.body...), byte(t), byte(t>>8))
			c := trailerCase{Shape: a.name, Frame: fmt.Sprintf("%x", frame), Request: false, Trailer: t}
			evalTrailer(c, frame, res)
		}
		atomic.AddInt64(&n, 65536)
	})
	ev.Par(len(shapes), runtime.NumCPU(), func(i int) {
		sh := shapes[i]
		for v := 0; v < 65536; v++ {
			body := sh.f(uint16(v))
			crc := spec.CRC(body)
			frame := append(append([]byte(nil), body...), byte(crc), byte(crc>>8))
			c := trailerCase{Shape: "accept-" + sh.name, Frame: fmt.Sprintf("%x", frame), Request: sh.request, Trailer: int(crc)}
			evalTrailer(c, frame, res)
		}
		atomic.AddInt64(&n, 65536)
	})
	res.Add("evaluations", n)
	res.Add("acceptance_cases", n)
	res.Axis("frames with a correct trailer over every 16-bit data value (6 shapes)", "full", n)
}

func run(tier string, shard, nsh int, res *ev.Result) {
	if err := spec.SelfCheck(); err != nil {
		panic(err)
	}
	earlyProbe(res)
	emissionSweep(res)
	acceptanceSweep(res)
	specialStates(res)
	stateSearch(res)
	res.Axis("crc state x input byte (transitions executed on packet.CRC16)", "full", 1<<24)
	foldCheck(res, 600)
	res.Axis("message length 0..600 x last byte x 8 prefix families", "full", 601*256*8)
	shs := shapes(res)
	enforcement(res, shs)
	res.Axis("rtu frame shapes", "boundary", int64(len(shs)))
	res.Axis("trailer value", "full", 65536)
	res.Sample(map[string]any{"transition": "state CRC16(00 00) --byte 0x31--> CRC16(00 00 31)", "got": packet.CRC16([]byte{0, 0, 0x31})})
	res.Sample(map[string]any{"trailer_case": shs[0].name, "frame": ev.Hex(shs[0].frame)})
	res.Sample(map[string]any{"trailer_case": shs[len(shs)-1].name, "frame": ev.Hex(shs[len(shs)-1].frame)})
}

func replay(check string, raw json.RawMessage, res *ev.Result) {
	switch check {
	case "enforcement":
		var c trailerCase
		json.Unmarshal(raw, &c)
		evalTrailer(c, hexb(c.Frame), res)
	default:
		var c crcCase
		json.Unmarshal(raw, &c)
		checkCRC(hexb(c.Data), res, check)
	}
}

func main() {
	ev.Main(ev.Spec{
		Property: prop, Level: "model_checking",
		Rule: "explicit-state search of the CRC register: states = 16-bit remainders reached through packet.CRC16 on all 2-byte strings (must be all 65536), " +
			"transitions = every (state, byte) pair executed on the real function and compared with an independently written MSB-first reference; " +
			"fold property on every length 0..600; every 16-bit trailer on every RTU frame shape. non-trivial = trailer cases (each distinct by construction)",
		Assumptions: []string{"strings longer than 600 bytes are covered by the fold argument (CRC16 is a left fold over a 16-bit state), not executed",
			"reference CRC written MSB-first with bit reversal, anchored on the catalogue check value 0x4B37"},
		Run: run, Replay: replay,
		Finish: func(tier string, res *ev.Result, cov map[string]any) {
			cov["states"] = res.Counters["states"]
			cov["transitions"] = res.Counters["transitions"]
			cov["traces_validated_against_impl"] = res.Counters["evaluations"]
		},
		Vacuity: func(tier string, res *ev.Result) string {
			if res.Counters["states"] != 65536 && len(res.Violations) == 0 {
				return "state search did not reach 65536 states"
			}
			return ""
		},
	})
}
