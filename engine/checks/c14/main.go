// C14 — one client instance can be shared by goroutines without interleaving or races.
// Engine C: N goroutines issue M request calls each (plus optional Close / Connect goroutines) on one real Client or
// SerialClient built from sources whose mutex, timers and field accesses were turned into scheduling points; every
// schedule within the preemption bound (or every schedule, for the small configurations) is enumerated and judged.
package main

import (
	"encoding/json"
	"fmt"
	"os"
	"sort"
	"strings"
	"time"

	"github.com/aldas/go-modbus-client/verifshim/vsched"
	"verif/clisched"
	"verif/ev"
	"verif/explore"
)

const prop = "C14"

type Case struct {
	Scenario  clisched.Scenario `json:"scenario"`
	Budget    int               `json:"budget"`
	Mode      int               `json:"mode"`
	TimeFirst bool              `json:"time_first"`
	Choices   []int             `json:"choices"`
}

type item struct {
	sc        clisched.Scenario
	budget    int // 1000 = unbounded
	mode      int
	timeFirst bool
	minOrders int // vacuity: at least this many distinct wire orders must be observed
}

const unbounded = 1000

func items(tier string) []item {
	var out []item
	thorough := tier == "thorough"
	fact := func(n int) int {
		f := 1
		for i := 2; i <= n; i++ {
			f *= i
		}
		return f
	}
	for _, kind := range []string{"tcp", "rtu", "serial", "serial-flusher"} {
		netw := kind == "tcp" || kind == "rtu"
		mk := func(n, m int, cl, co, hk bool) clisched.Scenario {
			return clisched.Scenario{Name: fmt.Sprintf("%s/%dx%d%s%s%s", kind, n, m, map[bool]string{true: "+close"}[cl], map[bool]string{true: "+connect"}[co], map[bool]string{true: "+hooks"}[hk]),
				Kind: kind, Callers: n, Calls: m, Close: cl, Connect: co, Hooks: hk}
		}
		all := func(sc clisched.Scenario, minOrders int) {
			out = append(out, item{sc, unbounded, vsched.ModePreemption, false, minOrders})
		}
		// every schedule (no bound): the lock serialises the exchanges, so the trees stay small as long as it works
		all(mk(2, 1, false, false, false), 2)
		all(mk(2, 1, true, false, false), 6)
		all(mk(2, 1, false, false, true), 2)
		all(mk(3, 1, false, false, false), fact(3))
		all(mk(2, 2, false, false, false), 6)
		all(mk(3, 1, true, false, false), 24)
		all(mk(2, 2, true, false, false), 6)
		all(mk(3, 2, false, false, false), 20)
		all(mk(4, 1, false, false, true), 24)
		if netw {
			all(mk(2, 1, false, true, false), 6)
			all(mk(1, 2, true, true, false), 6)
			all(mk(2, 1, true, true, false), 24)
			all(mk(2, 2, true, true, false), 24)
			all(mk(3, 1, true, true, true), 24)
		}
		// colliding calls: every caller asks for the same unit / address / quantity (identical frames over RTU)
		for _, sh := range [][2]int{{2, 1}, {3, 1}, {2, 2}} {
			st := mk(sh[0], sh[1], false, false, false)
			st.SameTarget, st.Name = true, st.Name+"+same-target"
			all(st, map[[2]int]int{{2, 1}: 2, {3, 1}: 6, {2, 2}: 6}[sh])
		}
		// a device that takes three quarters of the client's read timeout to answer: the third and fourth caller in the
		// queue wait longer than a whole read timeout before their turn comes (whatever clock a call starts must not
		// run while the call is only queueing)
		for _, n := range []int{3, 4} {
			sd := mk(n, 1, false, false, false)
			sd.DeviceDelayMs = 15
			if !netw {
				sd.DeviceDelayMs = 75
			}
			sd.Name += "+slow-device"
			all(sd, fact(n))
		}
		// two goroutines call Close at the same time (with and without a request in flight)
		for _, n := range []int{0, 1} {
			c2 := mk(n, 1, true, false, false)
			c2.Close2, c2.Name = true, c2.Name+"+close2"
			all(c2, 1)
		}
		stc := mk(2, 1, true, false, true)
		stc.SameTarget, stc.Name = true, stc.Name+"+same-target"
		all(stc, 6)
		tf := mk(2, 1, false, false, false)
		tf.LongTimeout = true
		out = append(out, item{tf, 2, vsched.ModeDelay, true, 2})
		all(mk(4, 2, false, false, false), 24)
		all(mk(5, 1, false, false, false), 120)
		all(mk(4, 1, true, false, true), 120)
		all(mk(3, 2, true, false, false), 20)
		if netw {
			all(mk(3, 2, true, true, true), 20)
			all(mk(4, 1, true, true, false), 120)
		}
		if thorough {
			all(mk(3, 3, false, false, false), 20)
			all(mk(5, 2, false, false, false), 120)
			all(mk(6, 1, false, false, false), 720)
			all(mk(4, 2, true, false, false), 24)
			all(mk(5, 1, true, false, true), 120)
			tf3 := mk(3, 1, true, false, true)
			tf3.LongTimeout = true
			out = append(out, item{tf3, 3, vsched.ModeDelay, true, 6})
			if netw {
				all(mk(4, 2, true, true, false), 24)
				all(mk(5, 1, true, true, true), 120)
			}
		}
	}
	return out
}

type local struct{ execs, steps, newSteps, points, hbAcc int64 }

func runItem(it item, shard, n int, res *ev.Result, lc *local, stop func() bool) {
	orders := map[string]struct{}{}
	outcomes := map[string]struct{}{}
	nviol := 0
	body := func(x *explore.Ctx) {
		r := clisched.Run(it.sc, vsched.Config{Choose: x.Choose, Budget: it.budget, Mode: it.mode, TimeFirst: it.timeFirst, MaxSteps: 5000})
		if r.Out.Hung {
			fmt.Printf("INCONCLUSIVE property=%s watchdog: an execution of %s stopped reaching scheduling points (choices %v)\n", prop, it.sc.Name, x.Choices())
			os.Exit(3)
		}
		if x.Shadow {
			return
		}
		lc.execs++
		lc.steps += int64(r.Out.Steps)
		lc.hbAcc += int64(r.Out.HBAccesses)
		shared := 0
		if p := x.PrefixLen(); p > 0 && p <= len(r.Out.ChoiceSteps) {
			shared = r.Out.ChoiceSteps[p-1]
		}
		lc.newSteps += int64(r.Out.Steps - shared)
		orders[r.Order] = struct{}{}
		outcomes[r.Summary] = struct{}{}
		for _, v := range r.V {
			nviol++
			c := Case{Scenario: it.sc, Budget: it.budget, Mode: it.mode, TimeFirst: it.timeFirst, Choices: x.Choices()}
			attrs := map[string]any{"close": it.sc.Close, "connect": it.sc.Connect}
			if v.Kind == "data-race" {
				attrs = map[string]any{} // one class per pair of source positions, whatever the scenario
			}
			for k, val := range v.Attrs {
				attrs[k] = val
			}
			res.Violate(ev.Violation{Check: "shared-client", Kind: v.Kind, Attrs: attrs,
				Msg: fmt.Sprintf("%s bound=%d choices=%v: %s", it.sc.Name, it.budget, c.Choices, v.Msg), Case: c})
		}
	}
	explore.UpperBudget = 48
	if it.budget == unbounded {
		explore.UpperBudget = 2000 // deep, narrow trees: deal out small subtrees
	}
	st := explore.ExploreShard(body, shard, n, func() bool { return stop() || nviol > 200 })
	lc.points += st.Points
	if st.Truncated && nviol <= 200 {
		res.Incomplete = append(res.Incomplete, fmt.Sprintf("%s/b%d", it.sc.Name, it.budget))
	}
	for o := range orders {
		res.Seen("orders/"+it.sc.Name+fmt.Sprint(it.budget, it.mode), []byte(o))
	}
	for o := range outcomes {
		res.Outcome(it.sc.Name + ": " + o)
	}
}

func run(tier string, shard, n int, res *ev.Result) {
	start := time.Now()
	deadline := ev.Deadline(start, tier, 10*time.Minute, 25*time.Minute)
	stop := func() bool { return time.Now().After(deadline) }
	lc := &local{}
	its := items(tier)
	// smallest systems first, and no item may use more than its share of the time: a change that makes one configuration's
	// schedule space explode (an extra unlocked step in every caller) must not keep the others from being explored
	sort.SliceStable(its, func(i, j int) bool {
		w := func(it item) int {
			x := it.sc.Callers * it.sc.Calls * 4
			for _, b := range []bool{it.sc.Close, it.sc.Connect, it.sc.Hooks} {
				if b {
					x++
				}
			}
			return x
		}
		return w(its[i]) < w(its[j])
	})
	perItem := 40 * time.Second
	if tier == "thorough" {
		perItem = 8 * time.Minute
	}
	globalStop := stop
	var itemStart time.Time
	stop = func() bool { return globalStop() || time.Since(itemStart) > perItem }
	for _, it := range its {
		itemStart = time.Now()
		if f := os.Getenv("VERIF_ITEM"); f != "" && !strings.Contains(it.sc.Name, f) {
			continue
		}
		if os.Getenv("VERIF_DEBUG") != "" {
			e0, t0 := lc.execs, time.Now()
			defer func(name string, b int) {}(it.sc.Name, it.budget)
			runItem(it, shard, n, res, lc, stop)
			fmt.Fprintf(os.Stderr, "shard %d item %s b=%d mode=%d execs=%d wall=%v\n", shard, it.sc.Name, it.budget, it.mode, lc.execs-e0, time.Since(t0))
			continue
		}
		if stop() {
			res.Incomplete = append(res.Incomplete, it.sc.Name+" (not started)")
			continue
		}
		runItem(it, shard, n, res, lc, stop)
	}
	res.Add("evaluations", lc.execs)
	res.Add("executions", lc.execs)
	res.Add("steps", lc.steps)
	res.Add("tree_nodes", lc.newSteps)
	res.Add("choice_points", lc.points)
	res.Add("hb_field_accesses_checked", lc.hbAcc)
	res.DistinctAdd("nontrivial", lc.execs)
	if shard == 0 {
		res.Axis("client kinds", "full", 4)
		res.Axis("configurations (callers x calls, +Close, +Connect, +hooks)", "declared list", int64(len(its)))
		for _, i := range []int{0, len(its) / 2, len(its) - 1} {
			res.Sample(map[string]any{"scenario": its[i].sc, "bound": its[i].budget, "mode": its[i].mode})
		}
	}
}

func replay(check string, raw json.RawMessage, res *ev.Result) {
	var c Case
	if err := json.Unmarshal(raw, &c); err != nil {
		panic(err)
	}
	var prev string
	for i := 0; i < 3; i++ {
		var r *clisched.Result
		explore.Replay(func(x *explore.Ctx) {
			r = clisched.Run(c.Scenario, vsched.Config{Choose: x.Choose, Budget: c.Budget, Mode: c.Mode, TimeFirst: c.TimeFirst, Trace: true, MaxSteps: 5000})
		}, c.Choices)
		sig := fmt.Sprint(r.Summary, r.V, len(r.Out.Trace))
		if i > 0 && sig != prev {
			fmt.Printf("INCONCLUSIVE property=%s replay is not deterministic\n", prop)
			os.Exit(3)
		}
		prev = sig
		if i == 0 {
			for _, s := range r.Out.Trace {
				fmt.Printf("  thread %d: %s\n", s.Thread, s.Label)
			}
			for _, v := range r.V {
				res.Violate(ev.Violation{Check: check, Kind: v.Kind, Attrs: v.Attrs, Msg: v.Msg, Case: c})
			}
		}
	}
}

var racePass map[string]any

func main() {
	ev.Main(ev.Spec{
		Property: prop,
		Level:    "model_checking",
		Rule: "Each item is one client kind x (callers x calls [+Close] [+Connect] [+hooks]); all schedules of its goroutines within the stated preemption/deviation bound " +
			"(no bound for the 2-goroutine configurations) are enumerated by a stateless DFS over the real, transformed client code against a device that answers in arrival " +
			"order and hands every reply out in two chunks. Executions are distinct by construction (distinct choice sequences); all of them run to completion under the oracle.",
		Assumptions: []string{
			"executions are sequentially consistent (cooperative scheduler); every statement touching a mutable field of Client/SerialClient is a scheduling point, and the reads / writes of those fields are judged for happens-before races in every explored schedule (vector clocks over the program's own synchronisation; edges over-approximated, so a report is never invented); locals captured by goroutines and accesses the transformer cannot place are left to the auxiliary -race pass",
			"replies are delivered in two chunks; payload is one FC3 request per call with caller-specific unit id, transaction id, address and quantity",
		},
		Run:        run,
		Replay:     replay,
		Shards:     func(tier string) int { return 16 },
		ShardProcs: 1,
		Post: func(tier string, res *ev.Result) {
			racePass = ev.RacePass(res, "TestRaceC14", 1)
		},
		Finish: func(tier string, res *ev.Result, cov map[string]any) {
			cov["race_pass"] = racePass
			cov["states"] = res.Counters["tree_nodes"]
			cov["transitions"] = res.Counters["steps"]
			cov["traces_validated_against_impl"] = res.Counters["executions"]
			cov["state_definition"] = "node of the schedule tree (distinct prefix of scheduling decisions); transitions = scheduling steps executed on the real code"
		},
		Vacuity: func(tier string, res *ev.Result) string {
			if len(res.Incomplete) > 0 {
				return "" // the internal deadline cut the run short: reported as not exhaustive, nothing to judge here
			}
			for _, it := range items(tier) {
				k := "orders/" + it.sc.Name + fmt.Sprint(it.budget, it.mode)
				if int(res.Distinct[k]) < it.minOrders {
					return fmt.Sprintf("%s (bound %d): only %d distinct wire orders observed, expected at least %d: the goroutines did not collide", it.sc.Name, it.budget, res.Distinct[k], it.minOrders)
				}
			}
			return ""
		},
	})
}
