package main

// Process-level part of C16: "malformed input or a panicking handler never terminates the process or disturbs other
// connections". The real server.Server (transformed sources) serves two connections over the in-memory network under the
// cooperative scheduler: connection A sends malformed input or hits a misbehaving handler, connection B then performs a
// normal exchange. All schedules with at most d deviations are explored. An unrecovered panic in any goroutine (which
// would have killed the process) is recorded by the scheduler's goroutine wrapper.

import (
	"encoding/hex"
	"fmt"
	"os"

	"github.com/aldas/go-modbus-client/verifshim/vsched"
	"verif/ev"
	"verif/explore"
	"verif/serverx"
	"verif/spec"
	"verif/srvx"
)

type Case2 struct {
	Scenario srvx.Scenario `json:"scenario"`
	Budget   int           `json:"budget"`
	Choices  []int         `json:"choices"`
}

func processScenarios(tier string) (out []Case2) {
	d := 1
	if tier == "thorough" {
		d = 2
	}
	a := []string{"dial", "send", "recv"}
	b := []string{"quiesce", "dial", "send", "recv", "close"}
	bpar := []string{"dial", "send", "recv", "close"}
	for _, cb := range []int{0, srvx.CbError, 15} {
		for _, hk := range []string{"panic", "panic-error", "panic-runtime", "panic-int", "nil-nil", "generic-error", "typed-error"} {
			sc := srvx.Scenario{Name: "P/handler-" + hk, Callbacks: cb, Handler: "instant", Control: "none", Clients: [][]string{a, b}, HandlerByConn: map[int]string{1: hk}}
			out = append(out, Case2{Scenario: sc, Budget: d})
			if hk == "panic" || hk == "nil-nil" {
				sc2 := sc
				sc2.Name = "P/parallel-handler-" + hk
				sc2.Clients = [][]string{a, bpar}
				sc2.HandlerByConn = map[int]string{1: hk}
				out = append(out, Case2{Scenario: sc2, Budget: 1})
			}
		}
		for _, fr := range []string{"unsupported-fc", "qty-out-of-range", "bytecount-inconsistent"} {
			sc := srvx.Scenario{Name: "P/bad-frame-" + fr, Callbacks: cb, Handler: "instant", Control: "none", Clients: [][]string{a, b}, Frames: []string{fr, "fc3"}}
			out = append(out, Case2{Scenario: sc, Budget: d})
			// two clients are refused at the same time (whatever the server keeps about refusals is shared between their
			// connection goroutines)
			sc2 := srvx.Scenario{Name: "P/both-refused-" + fr, Callbacks: cb, Handler: "instant", Control: "none", Clients: [][]string{bpar, bpar}, Frames: []string{fr, fr}}
			out = append(out, Case2{Scenario: sc2, Budget: d})
		}
		{
			sc2 := srvx.Scenario{Name: "P/both-handler-errors", Callbacks: cb, Handler: "typed-error", Control: "none", Clients: [][]string{bpar, bpar}}
			out = append(out, Case2{Scenario: sc2, Budget: d})
		}
		// garbage that is not Modbus TCP at all, a truncated frame followed by silence, a header announcing a huge body
		for name, hexs := range map[string]string{
			"garbage":        "deadbeef0000000000000000",
			"short-header":   "000100000006",
			"zero-length":    "0001000000000103",
			"huge-length":    "00010000ffff0103000a0001",
			"protocol-id-1":  "000100010006010300000001",
			"header-only-fc": "00010000000211",
		} {
			sc := srvx.Scenario{Name: "P/raw-" + name, Callbacks: cb, Handler: "instant", Control: "none",
				Clients: [][]string{{"dial", "write:" + hexs, "quiesce"}, b}}
			out = append(out, Case2{Scenario: sc, Budget: d})
		}
		// connection A dies with unconsumed bytes in its reassembly buffer (half a request; two pipelined requests of which
		// the first makes the handler panic); connection B, accepted after A is gone, must be unaffected by A's leftovers
		half := "1002000000061103006b"
		sc1 := srvx.Scenario{Name: "P/leftover-half-request", Callbacks: cb, Handler: "instant", Control: "none",
			Clients: [][]string{{"dial", "write:" + half, "quiesce", "close"}, {"quiesce", "quiesce", "dial", "send", "recv", "close"}}}
		out = append(out, Case2{Scenario: sc1, Budget: d})
		two := "1002000000061103006b0003" + "1003000000061103006b0001"
		sc2 := srvx.Scenario{Name: "P/leftover-after-panic", Callbacks: cb, Handler: "instant", Control: "none", HandlerByConn: map[int]string{1: "panic"},
			Clients: [][]string{{"dial", "write:" + two, "quiesce", "close"}, {"quiesce", "quiesce", "dial", "send", "recv", "close"}}}
		out = append(out, Case2{Scenario: sc2, Budget: d})
		// an unsupported-function request that arrives in two pieces, followed by a valid request on the same connection:
		// both replies must be addressed to their own requests (an exception sent before the body has arrived leaves the
		// body's tail in front of the next request)
		bad := "7001000000061" + "12b0e0100aa" // tid 7001, unit 0x11, function 0x2B + 4 body bytes  (12 bytes)
		bad = "700100000006112b0e0100aa"
		good := "700200000006110300100002"
		for _, cut := range []int{8, 9, 10, 11} {
			sc := srvx.Scenario{Name: fmt.Sprintf("P/split-unsupported-fc@%d", cut), Callbacks: cb, Handler: "instant", Control: "none",
				Clients: [][]string{{"dial", "write:" + bad[:2*cut], "quiesce", "write:" + bad[2*cut:], "quiesce", "write:" + good, "recvall:2", "close"}},
				Expect:  [][]string{{"7001000000031" + "1ab01", refHex(good)}}}
			sc.Expect[0][0] = "70010000000311ab01"
			out = append(out, Case2{Scenario: sc, Budget: 1})
		}
		// two requests that are both refused, sent in one write: each exception must be addressed to its own request
		badA := "700300000006112b0e0100aa" // unsupported function 0x2B, tid 7003
		badB := "7004000000061203000a007e" // FC3 quantity 126, tid 7004, unit 0x12
		scp := srvx.Scenario{Name: "P/two-refused-requests-in-one-write", Callbacks: cb, Handler: "instant", Control: "none",
			Clients: [][]string{{"dial", "write:" + badA + badB + good, "recvall:3", "close"}},
			Expect:  [][]string{{"70030000000311ab01", "70040000000312" + "8303", refHex(good)}}}
		out = append(out, Case2{Scenario: scp, Budget: d})
		// a refused request whose second half arrives after a pause, then a valid one
		for _, ms := range []int{60, 6000} {
			scq := srvx.Scenario{Name: fmt.Sprintf("P/split-refused-request-pause-%dms", ms), Callbacks: cb, Handler: "instant", Control: "none",
				Clients: [][]string{{"dial", "write:" + badB[:16], "quiesce", fmt.Sprintf("sleep:%d", ms), "write:" + badB[16:], "quiesce", "write:" + good, "recvall:2", "close"}},
				Expect:  [][]string{{"700400000003128303", refHex(good)}}}
			out = append(out, Case2{Scenario: scq, Budget: 1})
		}
		// panic while shutdown is waiting for that very handler
		sc := srvx.Scenario{Name: "P/panic-during-shutdown", Callbacks: cb, Handler: "sleep10", Control: "shutdown", ControlAt: 2, Clients: [][]string{{"dial", "send", "recv", "close"}}, PanicOnConn: 1}
		out = append(out, Case2{Scenario: sc, Budget: d})
	}
	return out
}

// refHex: the reference device's reply to a request frame given in hex.
func refHex(reqHex string) string {
	b, err := hex.DecodeString(reqHex)
	if err != nil {
		panic(err)
	}
	rq, err := spec.DecodeReq(b, false)
	if err != nil {
		panic(err)
	}
	return hex.EncodeToString(serverx.NewDevice().Handle(rq).Frame(false))
}

func processLevel(tier string, res *ev.Result) {
	cases := processScenarios(tier)
	var execs, steps int64
	outcomes := map[string]struct{}{}
	for _, c := range cases {
		c := c
		explore.Explore(func(x *explore.Ctx) {
			r := srvx.Run(c.Scenario, vsched.Config{Choose: x.Choose, Budget: c.Budget, TimeFirst: true, MaxSteps: 20000})
			if r.Out.Hung {
				fmt.Printf("INCONCLUSIVE property=%s watchdog: an execution of %s stopped reaching scheduling points\n", prop, c.Scenario.Name)
				os.Exit(3)
			}
			execs++
			steps += int64(r.Out.Steps)
			outcomes[c.Scenario.Name+": "+r.Summary] = struct{}{}
			// unsynchronised accesses to state shared between connection goroutines: the Go runtime ABORTS THE PROCESS on
			// concurrent map writes, and any data race in the serving path is a crash or a corrupted reply waiting to happen -
			// "malformed input never terminates the process or disturbs other connections"
			for _, v := range r.Races {
				cc := c
				cc.Choices = x.Choices()
				res.Violate(ev.Violation{Check: "process", Kind: v.Kind, Attrs: map[string]any{"race": v.Attrs["race"]},
					Msg: fmt.Sprintf("%s cb=%04b d<=%d choices=%v: %s", c.Scenario.Name, c.Scenario.Callbacks, c.Budget, cc.Choices, v.Msg), Case: cc})
			}
			for _, v := range r.V {
				attrs := map[string]any{"scenario": c.Scenario.Name}
				for k, val := range v.Attrs {
					attrs[k] = val
				}
				cc := c
				cc.Choices = x.Choices()
				res.Violate(ev.Violation{Check: "process", Kind: v.Kind, Attrs: attrs,
					Msg: fmt.Sprintf("%s cb=%04b d<=%d choices=%v: %s", c.Scenario.Name, c.Scenario.Callbacks, c.Budget, cc.Choices, v.Msg), Case: cc})
			}
		}, 0)
	}
	res.Add("evaluations", execs)
	res.Add("process_level_executions", execs)
	res.Add("process_level_steps", steps)
	res.Add("process_level_scenarios", int64(len(cases)))
	res.DistinctAdd("nontrivial", execs)
	for o := range outcomes {
		res.Outcome(o)
	}
	res.Axis("process level: (misbehaviour on connection A, callbacks) scenarios x all schedules with <= d deviations", "7 handler misbehaviours + 3 bad frames + 6 raw byte strings + panic during shutdown, x callbacks {none, OnErrorFunc, all}", int64(len(cases)))
}
