// C16 — every server reply is a well-formed ADU addressed to the request it answers.
// Level 1: complete request frames to the real ModbusTCPAssembler with four handler kinds.
// Level 2 (process level: panicking handler / malformed input do not disturb other connections) lives in level2.go.
package main

import (
	"bytes"
	"context"
	"encoding/hex"
	"encoding/json"
	"fmt"
	"os"
	"runtime"
	"sync"
	"sync/atomic"
	"time"

	"github.com/aldas/go-modbus-client/server"
	"github.com/aldas/go-modbus-client/verifshim/vsched"
	"verif/ev"
	"verif/explore"
	"verif/lib"
	"verif/serverx"
	"verif/spec"
	"verif/srvx"
)

const prop = "C16"

type Case struct {
	Frame   string `json:"frame_hex"`
	Handler string `json:"handler"`
	Code    uint8  `json:"handler_code"`
	Class   string `json:"class"`
}

type local struct{ evals, replies int64 }

// useSched: set once the assembler has been seen starting goroutines (see receive)
var useSched int32

type needSched struct{}

func receive(a *server.ModbusTCPAssembler, chunk []byte) (resp []byte, closeConn bool, pan string) {
	defer func() {
		if rec := recover(); rec != nil {
			if _, again := rec.(needSched); again {
				panic(rec)
			}
			pan = fmt.Sprint(rec)
		}
	}()
	if atomic.LoadInt32(&useSched) == 0 {
		// fast path: a plain call. Should the assembler start a goroutine of its own (vsched.FreeGo moves), the result of
		// this evaluation is not trusted: the evaluation is abandoned (needSched) and repeated under the scheduler, which
		// from then on runs every call of this process
		g0 := atomic.LoadInt64(&vsched.FreeGo)
		func() {
			defer func() {
				if rec := recover(); rec != nil {
					pan = fmt.Sprint(rec)
				}
			}()
			resp, closeConn = a.ReceiveRead(context.Background(), chunk, len(chunk))
		}()
		if atomic.LoadInt64(&vsched.FreeGo) == g0 {
			return
		}
		// the assembler started a goroutine although probeGoroutines (run first) saw none: those goroutines are running free
		// next to whatever the other workers of this process do - nothing in this process can be trusted any more
		fmt.Printf("INCONCLUSIVE property=%s the assembler started goroutines on a path the start-up probe did not take\n", prop)
		os.Exit(3)
	}
	// under the scheduler's default schedule (no deviations): should the assembler start goroutines of its own they run
	// in a fixed order instead of racing freely (the process level explores their interleavings)
	out := vsched.Run(vsched.Config{Choose: func(n int, label string) int { return 0 }}, func() {
		defer func() {
			if rec := recover(); rec != nil {
				pan = fmt.Sprint(rec)
			}
		}()
		resp, closeConn = a.ReceiveRead(context.Background(), chunk, len(chunk))
	})
	if out.Crash != "" && pan == "" {
		pan = out.Crash // a panic in a goroutine the assembler started
	}
	if out.Deadlock && pan == "" {
		pan = fmt.Sprintf("deadlock inside ReceiveRead: %v", out.Blocked)
	}
	return
}

// eval feeds one complete frame (whole) to a fresh assembler.
func eval(frame []byte, class, mode string, code uint8, res *ev.Result, lc *local) {
	retryUnderSched(func() { eval1(frame, class, mode, code, res, lc) })
}

func eval1(frame []byte, class, mode string, code uint8, res *ev.Result, lc *local) {
	lc.evals++
	c := Case{Frame: hex.EncodeToString(frame), Handler: mode, Code: code, Class: class}
	h := &serverx.Handler{Dev: serverx.NewDevice(), Mode: mode, Code: code}
	a := &server.ModbusTCPAssembler{Handler: h}
	reply, closeConn, pan := receive(a, append([]byte(nil), frame...))
	fc := uint8(0)
	if len(frame) > 7 {
		fc = frame[7]
	}
	fcClass := "supported"
	switch {
	case fc == 0:
		fcClass = "0"
	case fc >= 128:
		fcClass = ">=128"
	case !spec.Supported(fc):
		fcClass = "unsupported"
	}
	attrs := map[string]any{"class": class, "handler": mode, "fc_class": fcClass, "_fc": int(fc)}
	bad := func(kind, msg string) {
		res.Violate(ev.Violation{Check: "reply", Kind: kind, Attrs: attrs, Msg: fmt.Sprintf("request %s (%s) handler=%s: %s", ev.Hex(frame), class, mode, msg), Case: c})
	}
	if pan != "" {
		if mode == "panic" || mode == "nil-nil" {
			return // handler panics are the connection loop's business (level 2)
		}
		bad("panic", "ReceiveRead panicked: "+pan)
		return
	}
	_ = closeConn
	if class == "short-length-field" {
		// 8 or more bytes whose MBAP length field announces fewer bytes than a request can have: not a request. Only
		// "no panic, and a reply, if any, is a 9-byte exception ADU" is demanded.
		if reply != nil && fc >= 1 && fc < 128 && (len(reply)%9 != 0 || reply[2] != 0 || reply[3] != 0 || reply[4] != 0 || reply[5] != 3 || reply[7]&0x80 == 0) {
			bad("reply-not-9-byte-exception", fmt.Sprintf("reply %x", reply))
		}
		return
	}
	// a frame with MBAP length < 2 is not delimited (fewer than 8 bytes): no reply is required
	if len(frame) < 8 {
		if reply != nil {
			bad("reply-to-undelimited-input", fmt.Sprintf("reply %x to %d bytes of input", reply, len(frame)))
		}
		return
	}
	r, derr := spec.DecodeReq(frame, false)
	legal := derr == nil && r.Legal()
	called := len(h.Calls) > 0
	if reply == nil {
		if fcClass == "0" || fcClass == ">=128" {
			return
		}
		bad("no-reply", "complete frame got no reply")
		return
	}
	lc.replies++
	if fcClass == "0" || fcClass == ">=128" {
		// only: no panic, and a reply, if any, is a 9-byte ADU echoing tid and unit
		if len(reply) != 9 || reply[0] != frame[0] || reply[1] != frame[1] || reply[6] != frame[6] || reply[2] != 0 || reply[3] != 0 || reply[4] != 0 || reply[5] != 3 {
			bad("reply-not-addressed-9-byte-adu", fmt.Sprintf("reply %x", reply))
		}
		return
	}
	exp := serverx.ReplyExpect{Request: frame, ExcCode: -1}
	switch {
	case fcClass == "unsupported":
		exp.ExcCode = spec.ExIllegalFunc
	case derr != nil:
		// structurally malformed for its function (too short, too long, byte count that does not describe the frame): the
		// statement fixes neither whether it is refused nor the code; whatever is sent must be addressed and well-formed
		exp.Valid, exp.AllowNormal = true, true
	case !legal && outOfRange(r):
		exp.ExcCode = spec.ExIllegalValue
	case !legal:
		exp.Valid, exp.AllowNormal = true, true // byte count inconsistent with the quantity: code not fixed
	case called && mode == "device":
		// the handler's response: what the reference device answers to this very request
		want := serverx.NewDevice().Handle(r)
		if want.Exc {
			exp.ExcCode = int(want.ExCode)
		} else {
			exp.Valid = true
			exp.Want = want.Frame(false)
		}
	case called && (mode == "typed-error" || mode == "wrapped-typed-error"):
		exp.ExcCode = int(code)
	case called:
		// generic handler error: exception with the request's function; the statement does not fix the code
	default:
		// legal request that never reached the handler: the library's parser refused it (C09's business); the reply must
		// still be an addressed exception
	}
	if legal && !called {
		attrs["legal_request_refused"] = true
	}
	if kind, msg := serverx.CheckReply(reply, exp); kind != "" {
		bad(kind, msg)
		return
	}
	if called && derr == nil && !legal && outOfRange(r) && mode == "device" {
		bad("illegal-request-reached-handler", "a request with a quantity / value outside the specification's limits was passed to the handler")
	}
	// exactly one reply
	if fs, rest := serverx.SplitReplies(reply); len(fs) != 1 || len(rest) != 0 {
		bad("not-exactly-one-reply", fmt.Sprintf("reply bytes %x contain %d ADUs + %d stray bytes", reply, len(fs), len(rest)))
	}
}

// outOfRange: illegal because a quantity / value field is outside the specification's range (as opposed to a
// byte count that does not match).
func outOfRange(r spec.Req) bool {
	switch r.FC {
	case 1, 2:
		return r.Qty < 1 || r.Qty > spec.MaxReadBits
	case 3, 4:
		return r.Qty < 1 || r.Qty > spec.MaxReadRegs
	case 5:
		return r.Value != spec.CoilOn && r.Value != spec.CoilOff
	case 15:
		return r.Qty < 1 || r.Qty > spec.MaxWriteBits
	case 16:
		return r.Qty < 1 || r.Qty > spec.MaxWriteRegs
	case 23:
		return r.Qty < 1 || r.Qty > spec.MaxRWReadRegs || r.WQty < 1 || r.WQty > spec.MaxRWWriteRegs
	}
	return false
}

type handlerKind struct {
	mode string
	code uint8
}

func run(tier string, shard, nsh int, res *ev.Result) {
	probeGoroutines()
	thorough := tier == "thorough"
	handlers := []handlerKind{{"device", 0}, {"typed-error", 1}, {"typed-error", 2}, {"typed-error", 3}, {"typed-error", 4}, {"typed-error", 6}, {"wrapped-typed-error", 2}, {"wrapped-typed-error", 3}, {"generic-error", 0}}
	var jobs []func(lc *local)
	add := func(f func(lc *local)) { jobs = append(jobs, f) }
	base := func(fc uint8) spec.Req {
		switch fc {
		case 1:
			return spec.Req{FC: 1, Addr: 0x13, Qty: 19}
		case 2:
			return spec.Req{FC: 2, Addr: 0xC4, Qty: 22}
		case 3:
			return spec.Req{FC: 3, Addr: 0x6B, Qty: 3}
		case 4:
			return spec.Req{FC: 4, Addr: 8, Qty: 1}
		case 5:
			return spec.Req{FC: 5, Addr: 0xAC, Value: spec.CoilOn}
		case 6:
			return spec.Req{FC: 6, Addr: 1, Value: 3}
		case 15:
			return spec.Req{FC: 15, Addr: 0x13, Qty: 10, Data: []byte{0xCD, 0x01}}
		case 16:
			return spec.Req{FC: 16, Addr: 1, Qty: 2, Data: []byte{0, 10, 1, 2}}
		case 17:
			return spec.Req{FC: 17}
		}
		return spec.Req{FC: 23, Addr: 3, Qty: 6, WAddr: 14, WQty: 3, Data: []byte{0, 255, 0, 255, 0, 255}}
	}
	// (1) valid requests, tid x unit
	for _, fc := range spec.AllFC {
		fc := fc
		add(func(lc *local) {
			for _, hk := range handlers {
				for _, tid := range lib.B16 {
					units := lib.B8
					if fc == 3 {
						units = nil
						for u := 0; u < 256; u++ {
							units = append(units, uint8(u))
						}
					}
					for _, un := range units {
						r := base(fc)
						r.TID, r.Unit = tid, un
						eval(r.Frame(false), "valid", hk.mode, hk.code, res, lc)
					}
				}
				for _, a := range lib.B16 { // boundary addresses (device answers exception 02 when the range leaves the table)
					r := base(fc)
					r.TID, r.Unit, r.Addr = 0x0102, 0x11, a
					eval(r.Frame(false), "valid-boundary-address", hk.mode, hk.code, res, lc)
				}
			}
		})
	}
	// (2) every unsupported function code (and 0, >=128 loosely) with bodies of several lengths
	add(func(lc *local) {
		for fc := 0; fc < 256; fc++ {
			if spec.Supported(uint8(fc)) {
				continue
			}
			for _, bl := range []int{1, 2, 4, 5, 20, 246} {
				for _, tid := range []uint16{0, 0x0102, 0xFFFF} {
					for _, un := range []uint8{0, 0x11, 255} {
						f := spec.TCP(tid, un, append([]byte{byte(fc)}, lib.Pattern("pos", bl, 0)...))
						eval(f, "unsupported-fc", "device", 0, res, lc)
					}
				}
			}
		}
	})
	// (3) every quantity / value in each function's field
	for _, fc := range []uint8{1, 2, 3, 4, 5, 15, 16, 23, 123} {
		fc := fc
		add(func(lc *local) {
			for q := 0; q < 65536; q++ {
				hs := handlers[:1]
				if q < 300 || q%4099 == 0 {
					hs = handlers
				}
				for _, hk := range hs {
					var r spec.Req
					switch fc {
					case 5:
						r = base(5)
						r.Value = uint16(q)
					case 15:
						r = base(15)
						r.Qty = uint16(q)
						n := (q + 7) / 8
						if n > 246 {
							n = 246
						}
						r.Data = lib.Pattern("pos", n, 0)
					case 16:
						r = base(16)
						r.Qty = uint16(q)
						n := 2 * q
						if n > 246 {
							n = 246
						}
						r.Data = lib.Pattern("pos", n, 0)
					case 23:
						r = base(23)
						r.Qty = uint16(q)
					case 123: // FC23 write quantity
						r = base(23)
						r.WQty = uint16(q)
						n := 2 * q
						if n > 242 {
							n = 242
						}
						r.Data = lib.Pattern("pos", n, 0)
					default:
						r = base(fc)
						r.Qty = uint16(q)
					}
					r.TID, r.Unit = 0xBEEF, 0x2A
					eval(r.Frame(false), "quantity-sweep", hk.mode, hk.code, res, lc)
				}
			}
		})
	}
	// (4) truncated bodies: every MBAP length from 2 up to the full length with a matching, too-short body
	add(func(lc *local) {
		for _, fc := range spec.AllFC {
			full := base(fc)
			full.TID, full.Unit = 0x7788, 0x09
			ff := full.Frame(false)
			for l := 6; l < len(ff); l++ { // l = total frame length
				f := append([]byte(nil), ff[:l]...)
				f[4], f[5] = byte((l-6)>>8), byte(l-6)
				for _, hk := range handlers[:1] {
					eval(f, "truncated-body", hk.mode, hk.code, res, lc)
				}
			}
			// over-long bodies
			for ext := 1; ext <= 4; ext++ {
				f := append(append([]byte(nil), ff...), lib.Pattern("pos", ext, 0)...)
				f[4], f[5] = byte((len(f)-6)>>8), byte(len(f)-6)
				eval(f, "overlong-body", "device", 0, res, lc)
			}
		}
	})
	// (4b) eight or more bytes on the wire whose length field says 0, 1 or 2: every function code
	add(func(lc *local) {
		for fc := 0; fc < 256; fc++ {
			for l := 0; l <= 2; l++ {
				if l == 2 && fc == 17 {
					continue // that is the (complete) read-server-id request
				}
				for _, extra := range []int{0, 1, 4, 12} {
					f := append([]byte{0x31, 0x32, 0, 0, 0, byte(l), 0x07, byte(fc)}, lib.Pattern("pos", extra, 0)...)
					eval(f, "short-length-field", "device", 0, res, lc)
				}
			}
		}
	})
	// (5) every byte-count value against actual payload lengths
	add(func(lc *local) {
		for _, fc := range []uint8{15, 16, 23} {
			for bc := 0; bc < 256; bc++ {
				for _, al := range lib.B8 {
					if int(al) > 246 {
						continue
					}
					r := base(fc)
					r.TID, r.Unit = 0x0BC0, 0x33
					r.Data = lib.Pattern("pos", int(al), 0)
					switch fc {
					case 15:
						r.Qty = uint16(8 * int(al))
						if r.Qty == 0 {
							r.Qty = 1
						}
					case 16:
						r.Qty = uint16(int(al) / 2)
					case 23:
						r.WQty = uint16(int(al) / 2)
					}
					f := r.Frame(false)
					// overwrite the byte count field
					off := 12
					if fc == 23 {
						off = 16
					}
					f[off] = byte(bc)
					eval(f, "bytecount-sweep", "device", 0, res, lc)
				}
			}
		}
	})
	if thorough {
		// full unit x tid boundary for every handler kind on two more functions, and all supported functions with every tid
		add(func(lc *local) {
			for tid := 0; tid < 65536; tid++ {
				for _, fc := range []uint8{1, 6, 17} {
					r := base(fc)
					r.TID, r.Unit = uint16(tid), uint8(tid>>3)
					eval(r.Frame(false), "valid", "device", 0, res, lc)
					eval(r.Frame(false), "valid", "typed-error", 2, res, lc)
				}
			}
		})
	}
	seqJobs(thorough, res, add)
	var mu sync.Mutex
	var tot local
	ev.Par(len(jobs), runtime.NumCPU(), func(i int) {
		var lc local
		jobs[i](&lc)
		mu.Lock()
		tot.evals += lc.evals
		tot.replies += lc.replies
		mu.Unlock()
	})
	processLevel(tier, res)
	res.Add("evaluations", tot.evals)
	res.Add("replies_checked", tot.replies)
	res.DistinctAdd("nontrivial", tot.replies)
	res.Axis("handler kind", "device response / typed error with code 1,2,3,4,6 / generic error", int64(len(handlers)))
	res.Axis("valid requests", "10 functions x tid B16 x unit (full for FC3, B8 otherwise) x boundary addresses", 0)
	res.Axis("unsupported function code", "full 0..255 minus the 10 supported x 6 body lengths", 246)
	res.Axis("quantity / value field", "full 0..65535 for FC1,2,3,4,5,15,16,23(read),23(write)", 65536)
	res.Axis("truncated / over-long bodies", "every MBAP length from 0 to full-1, +1..4", 0)
	res.Axis("byte count field", "full 0..255 x actual payload length in B8 for FC15,16,23", 256)
	res.Axis("request sequences on one assembler", "all ordered pairs (and triples) of 8 requests with pairwise different tid/unit/function x 7 handler kinds x 4 deliveries", 0)
	res.Sample(Case{Frame: "beef0000000c2a1000010002040000", Handler: "device", Class: "quantity-sweep"})
	res.Sample(Case{Frame: "01020000000411630001", Handler: "device", Class: "unsupported-fc"})
	_ = bytes.Equal
}

func replay(check string, raw json.RawMessage, res *ev.Result) {
	probeGoroutines()
	if check == "process" {
		var c Case2
		json.Unmarshal(raw, &c)
		explore.Replay(func(x *explore.Ctx) {
			r := srvx.Run(c.Scenario, vsched.Config{Choose: x.Choose, Budget: c.Budget, TimeFirst: true, Trace: true, MaxSteps: 20000})
			for _, st := range r.Out.Trace {
				fmt.Printf("  thread %d: %s\n", st.Thread, st.Label)
			}
			if r.Out.Crash != "" {
				fmt.Println(r.Out.Crash)
			}
			for _, v := range r.V {
				res.Violate(ev.Violation{Check: check, Kind: v.Kind, Attrs: v.Attrs, Msg: v.Msg, Case: c})
			}
		}, c.Choices)
		return
	}
	if check == "reply-sequence" {
		var c SeqCase
		json.Unmarshal(raw, &c)
		var fs [][]byte
		for _, h := range c.Frames {
			b, _ := hex.DecodeString(h)
			fs = append(fs, b)
		}
		var lc local
		evalSeq(fs, c.Handler, c.Code, c.Delivery, res, &lc)
		return
	}
	var c Case
	json.Unmarshal(raw, &c)
	f, _ := hex.DecodeString(c.Frame)
	var lc local
	eval(f, c.Class, c.Handler, c.Code, res, &lc)
}

func main() {
	ev.Main(ev.Spec{
		Property: prop, Level: "exploration",
		Rule: "complete request frames of the declared classes are given whole to a fresh real assembler with each handler kind; every reply must be a well-formed ADU echoing the request's transaction id and unit id; " +
			"normal replies must be the handler's response; exceptions 9 bytes with function|0x80 and code 01 (unsupported function) / 03 (quantity or value out of range) / the handler's code. non-trivial = replies checked (distinct frames x handlers by construction)",
		Assumptions: []string{"function codes 0 and >=128: only 'no panic and a reply, if any, is an addressed 9-byte ADU' is demanded", "the code of exceptions for truncated bodies, byte-count mismatches and generic handler errors is not fixed by the statement and not checked",
			"a legal request refused by the library's parser (FC1/FC2 quantities 126..2000, C09-F1) must still get an addressed exception"},
		Run: run, Replay: replay,
	})
}

// retryUnderSched runs f; if f is abandoned because the assembler turned out to start goroutines (needSched), f is run
// again - this time, and from now on, every ReceiveRead call goes through the scheduler.
func retryUnderSched(f func()) {
	again := false
	func() {
		defer func() {
			if rec := recover(); rec != nil {
				if _, ok := rec.(needSched); ok {
					again = true
					return
				}
				panic(rec)
			}
		}()
		f()
	}()
	if again {
		f()
	}
}

// probeGoroutines runs before anything else: a few representative reads (one request, two and three requests completed
// by one read, a refused request, a request in two reads) go through a throw-away assembler on the plain path. If the
// assembler starts goroutines of its own (vsched.FreeGo moves) every ReceiveRead call of this process is made under the
// scheduler's default schedule instead (useSched) - a decision taken once, before any worker runs, because a goroutine
// started outside an execution must never meet an installed one.
func probeGoroutines() {
	g0 := atomic.LoadInt64(&vsched.FreeGo)
	cat := serverx.Catalogue(0x7000)
	byN := func(name string) []byte {
		for _, f := range cat {
			if f.Name == name {
				return append([]byte(nil), f.Bytes...)
			}
		}
		panic(name)
	}
	streams := [][][]byte{
		{byN("fc3")},
		{append(byN("fc3"), byN("fc16")...)},
		{append(append(byN("fc3"), byN("fc6")...), byN("fc1")...)},
		{append(byN("unsupported-fc"), byN("fc3")...)},
		{append(byN("fc3-refused"), byN("fc3-refused")...)},
		{byN("fc3")[:5], byN("fc3")[5:]},
		{append(byN("fc3-max"), byN("fc3-max")...), byN("fc3")},
	}
	for _, st := range streams {
		h := &serverx.Handler{Dev: serverx.NewDevice(), Mode: "device"}
		a := &server.ModbusTCPAssembler{Handler: h}
		for _, chunk := range st {
			func() {
				defer func() { recover() }()
				a.ReceiveRead(context.Background(), chunk, len(chunk))
			}()
		}
	}
	time.Sleep(50 * time.Millisecond) // whatever was started has long finished (instant handler)
	if atomic.LoadInt64(&vsched.FreeGo) != g0 {
		atomic.StoreInt32(&useSched, 1)
	}
}
