package main

import (
	"encoding/hex"
	"fmt"
	"strings"

	"github.com/aldas/go-modbus-client/server"
	"verif/ev"
	"verif/lib"
	"verif/serverx"
	"verif/spec"
)

// Sequences: C16 quantifies over every request the server answers, not only the first one a fresh assembler sees. Two or
// three requests with pairwise different transaction id, unit id and function are given to ONE assembler - all in one
// read (a client that sends ahead), one read each, or cut inside the second request - and every reply must be addressed
// to the request at its own position. What a reply must be is decided per request exactly as for single requests,
// restricted to the classes whose expectation does not depend on the rest of the stream: legal requests (device answer /
// typed / generic handler error) and unsupported function codes.

type SeqCase struct {
	Frames   []string `json:"frames"`
	Handler  string   `json:"handler"`
	Code     uint8    `json:"code"`
	Delivery string   `json:"delivery"`
}

func seqFrames() [][]byte {
	rq := func(r spec.Req, tid uint16, unit uint8) []byte {
		r.TID, r.Unit = tid, unit
		return r.Frame(false)
	}
	return [][]byte{
		rq(spec.Req{FC: 3, Addr: 0x6B, Qty: 3}, 0x0101, 0x11),
		rq(spec.Req{FC: 16, Addr: 1, Qty: 2, Data: []byte{0, 10, 1, 2}}, 0xA1B2, 0x22),
		rq(spec.Req{FC: 6, Addr: 1, Value: 3}, 0x0F0E, 0x33),
		rq(spec.Req{FC: 1, Addr: 0x13, Qty: 19}, 0x7FFF, 0x44),
		rq(spec.Req{FC: 3, Addr: 0xFFFF, Qty: 2}, 0x5A5A, 0x55), // the device refuses it with exception 02
		spec.TCP(0xC3C3, 0x66, []byte{0x2B, 0x0E, 0x01, 0x00}),  // unsupported function
		rq(spec.Req{FC: 3, Addr: 0, Qty: 125}, 0x2222, 0x77),    // the largest reply
		rq(spec.Req{FC: 16, Addr: 100, Qty: 123, Data: lib.Pattern("pos", 246, 0)}, 0x3333, 0x88),
	}
}

func evalSeq(frames [][]byte, mode string, code uint8, delivery string, res *ev.Result, lc *local) {
	retryUnderSched(func() { evalSeq1(frames, mode, code, delivery, res, lc) })
}

func evalSeq1(frames [][]byte, mode string, code uint8, delivery string, res *ev.Result, lc *local) {
	lc.evals++
	var hx []string
	var stream []byte
	var ends []int
	for _, f := range frames {
		hx = append(hx, hex.EncodeToString(f))
		stream = append(stream, f...)
		ends = append(ends, len(stream))
	}
	c := SeqCase{Frames: hx, Handler: mode, Code: code, Delivery: delivery}
	attrs := map[string]any{"class": "sequence", "handler": mode, "delivery": delivery, "_n": len(frames)}
	bad := func(kind, msg string) {
		res.Violate(ev.Violation{Check: "reply-sequence", Kind: kind, Attrs: attrs, Msg: fmt.Sprintf("requests %s handler=%s delivery=%s: %s", strings.Join(hx, " | "), mode, delivery, msg), Case: c})
	}
	h := &serverx.Handler{Dev: serverx.NewDevice(), Mode: mode, Code: code}
	a := &server.ModbusTCPAssembler{Handler: h}
	var chunks [][]byte
	switch delivery {
	case "one-read":
		chunks = [][]byte{stream}
	case "read-each":
		p := 0
		for _, e := range ends {
			chunks = append(chunks, stream[p:e])
			p = e
		}
	case "cut-in-second":
		cut := ends[0] + 3
		chunks = [][]byte{stream[:cut], stream[cut:]}
	case "cut-in-first":
		chunks = [][]byte{stream[:5], stream[5:]}
	case "first-whole-rest-split": // a read that completes nothing, after a reply has already been produced
		chunks = [][]byte{stream[:ends[0]], stream[ends[0] : ends[0]+7], stream[ends[0]+7:]}
	}
	var got []byte
	for _, ch := range chunks {
		reply, _, pan := receive(a, append([]byte(nil), ch...))
		if pan != "" {
			bad("panic", "ReceiveRead panicked: "+pan)
			return
		}
		got = append(got, reply...)
	}
	replies, rest := serverx.SplitReplies(got)
	if len(replies) != len(frames) || len(rest) != 0 {
		bad("not-one-reply-per-request", fmt.Sprintf("%d requests, reply bytes %x contain %d ADUs + %d stray bytes", len(frames), got, len(replies), len(rest)))
		return
	}
	ref := serverx.NewDevice()
	onceUsed := false
	for i, f := range frames {
		lc.replies++
		exp := serverx.ReplyExpect{Request: f, ExcCode: -1}
		r, derr := spec.DecodeReq(f, false)
		m := mode
		if strings.HasSuffix(m, "-once") { // only the first request that reaches the handler is refused
			if derr == nil && spec.Supported(f[7]) && !onceUsed {
				onceUsed = true
				m = strings.TrimSuffix(m, "-once")
			} else {
				m = "device"
			}
		}
		switch {
		case !spec.Supported(f[7]):
			exp.ExcCode = spec.ExIllegalFunc
		case derr != nil:
			panic("sequence frame does not decode")
		case m == "device":
			want := ref.Handle(r)
			if want.Exc {
				exp.ExcCode = int(want.ExCode)
			} else {
				exp.Valid, exp.Want = true, want.Frame(false)
			}
		case m == "typed-error" || m == "wrapped-typed-error":
			exp.ExcCode = int(code)
		default: // generic error: an exception with the request's function, code not fixed
		}
		if kind, msg := serverx.CheckReply(replies[i], exp); kind != "" {
			attrs["position"] = fmt.Sprintf("%d-of-%d", i+1, len(frames))
			bad(kind, fmt.Sprintf("reply %d: %s", i+1, msg))
			return
		}
	}
}

func seqJobs(thorough bool, res *ev.Result, add func(func(lc *local))) {
	fr := seqFrames()
	modes := []handlerKind{{"device", 0}, {"typed-error", 2}, {"typed-error", 4}, {"wrapped-typed-error", 3}, {"generic-error", 0}, {"typed-error-once", 2}, {"generic-error-once", 0}}
	deliveries := []string{"one-read", "read-each", "cut-in-second", "cut-in-first", "first-whole-rest-split"}
	add(func(lc *local) {
		for _, hk := range modes {
			for _, d := range deliveries {
				for i := range fr {
					for j := range fr {
						evalSeq([][]byte{fr[i], fr[j]}, hk.mode, hk.code, d, res, lc)
						ks := []int{0, 4, 5}
						if thorough {
							ks = []int{0, 1, 2, 3, 4, 5, 6, 7}
						}
						for _, k := range ks {
							evalSeq([][]byte{fr[i], fr[j], fr[k]}, hk.mode, hk.code, d, res, lc)
						}
					}
				}
			}
		}
	})
}
