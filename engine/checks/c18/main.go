// C18 — the TCP stream classifier agrees with the encoders and the request parsers.
package main

import (
	"encoding/hex"
	"encoding/json"
	"errors"
	"fmt"
	"runtime"
	"sync"

	"github.com/aldas/go-modbus-client/packet"
	"verif/ev"
	"verif/lib"
	"verif/spec"
)

const prop = "C18"

type Case struct {
	Part  string `json:"part"` // "prefix", "header", "delimited"
	Data  string `json:"data_hex"`
	Allow bool   `json:"allow_unsupported"`
	Full  int    `json:"full_len"` // part=prefix: true frame length
}

type local struct{ evals, nontrivial int64 }

func classify(b []byte, allow bool) (n int, err error, pan string) {
	defer func() {
		if rec := recover(); rec != nil {
			pan = fmt.Sprint(rec)
		}
	}()
	n, err = packet.LooksLikeModbusTCP(b, allow)
	return
}

func evalPrefix(prefix []byte, full int, fc uint8, allow bool, res *ev.Result, lc *local) {
	lc.evals++
	n, err, pan := classify(prefix, allow)
	attrs := map[string]any{"fc": int(fc), "allow": allow, "prefix_class": map[bool]string{true: "<8", false: ">=8"}[len(prefix) < 8]}
	mk := func() Case { return Case{Part: "prefix", Data: hex.EncodeToString(prefix), Allow: allow, Full: full} }
	if pan != "" {
		res.Violate(ev.Violation{Check: "prefix", Kind: "panic", Attrs: attrs, Msg: "classifier panicked: " + pan, Case: mk()})
		return
	}
	if len(prefix) < 8 {
		if err != packet.ErrTCPDataTooShort {
			res.Violate(ev.Violation{Check: "prefix", Kind: "short-prefix-not-too-short", Attrs: attrs,
				Msg: fmt.Sprintf("prefix %s (%d bytes of a %d byte fc%d request): got (%d, %v), want ErrTCPDataTooShort", ev.Hex(prefix), len(prefix), full, fc, n, err), Case: mk()})
		}
		return
	}
	lc.nontrivial++
	if err != nil || n != full {
		res.Violate(ev.Violation{Check: "prefix", Kind: "wrong-length-or-error", Attrs: attrs,
			Msg: fmt.Sprintf("prefix %s (%d bytes of a %d byte fc%d request encoded by the library): got (%d, %v), want (%d, nil)", ev.Hex(prefix), len(prefix), full, fc, n, err, full), Case: mk()})
		return
	}
	if len(prefix) == full {
		// the whole encoded frame is there and was accepted with its length: the dispatcher must parse it or refuse it
		// with an error that encodes to a valid exception reply
		dispatch(prefix[:n:n], prefix, allow, map[string]any{"allow": allow, "fc_class": fcClass(fc), "len_class": lenClass(full - 6), "proto0": true}, res, mk)
	}
}

// header oracle: the classifier's answer is a function of (protocol id, length field, function code).
func evalHeader(h []byte, allow bool, res *ev.Result, lc *local) {
	lc.evals++
	n, err, pan := classify(h, allow)
	proto := uint16(h[2])<<8 | uint16(h[3])
	length := int(h[4])<<8 | int(h[5])
	fc := h[7]
	attrs := map[string]any{"allow": allow, "fc_class": fcClass(fc), "len_class": lenClass(length), "proto0": proto == 0}
	mk := func() Case { return Case{Part: "header", Data: hex.EncodeToString(h), Allow: allow} }
	if pan != "" {
		res.Violate(ev.Violation{Check: "header", Kind: "panic", Attrs: attrs, Msg: "classifier panicked: " + pan, Case: mk()})
		return
	}
	if err == packet.ErrTCPDataTooShort {
		res.Violate(ev.Violation{Check: "header", Kind: "too-short-on-8-bytes", Attrs: attrs, Msg: fmt.Sprintf("8-byte header %s classified as too short", ev.Hex(h)), Case: mk()})
		return
	}
	if proto != 0 {
		if err == nil || n != 0 {
			res.Violate(ev.Violation{Check: "header", Kind: "accepts-bad-protocol", Attrs: attrs, Msg: fmt.Sprintf("header %s: protocol id %#04x accepted (%d, %v)", ev.Hex(h), proto, n, err), Case: mk()})
		}
		return
	}
	// whatever is reported with a length must be 6 + length field
	if n != 0 && n != 6+length {
		res.Violate(ev.Violation{Check: "header", Kind: "wrong-expected-length", Attrs: attrs, Msg: fmt.Sprintf("header %s: expected length %d != 6+%d", ev.Hex(h), n, length), Case: mk()})
		return
	}
	if err == nil {
		lc.nontrivial++
		if n == 0 {
			res.Violate(ev.Violation{Check: "header", Kind: "accepts-with-zero-length", Attrs: attrs, Msg: fmt.Sprintf("header %s: nil error with expected length 0", ev.Hex(h)), Case: mk()})
		}
		if !allow && !spec.Supported(fc) {
			res.Violate(ev.Violation{Check: "header", Kind: "unsupported-fc-accepted", Attrs: attrs, Msg: fmt.Sprintf("header %s: unsupported function %d accepted without error", ev.Hex(h), fc), Case: mk()})
		}
		if n > 0 && n <= len(h) {
			// accepted with an expected length that is already available: the delimited bytes go to the dispatcher now
			dispatch(h[:n:n], h, allow, attrs, res, func() Case { return Case{Part: "header", Data: hex.EncodeToString(h), Allow: allow} })
		}
		return
	}
	if n != 0 {
		// classified as "unsupported function code": must carry the matching illegal-function exception
		lc.nontrivial++
		var pe *packet.ErrorParseTCP
		if !errors.As(err, &pe) {
			res.Violate(ev.Violation{Check: "header", Kind: "unsupported-fc-wrong-error-type", Attrs: attrs, Msg: fmt.Sprintf("header %s: error %T", ev.Hex(h), err), Case: mk()})
			return
		}
		if spec.Supported(fc) {
			res.Violate(ev.Violation{Check: "header", Kind: "supported-fc-classified-unsupported", Attrs: attrs, Msg: fmt.Sprintf("header %s: supported function %d reported as unsupported", ev.Hex(h), fc), Case: mk()})
			return
		}
		if fc >= 1 && fc <= 127 {
			want := []byte{h[0], h[1], 0, 0, 0, 3, h[6], fc | 0x80, 1}
			if got := pe.Bytes(); string(got) != string(want) {
				res.Violate(ev.Violation{Check: "header", Kind: "unsupported-fc-wrong-exception", Attrs: attrs, Msg: fmt.Sprintf("header %s: exception %s, want %s", ev.Hex(h), ev.Hex(got), ev.Hex(want)), Case: mk()})
			}
		}
		return
	}
	// rejected outright (err != nil, n == 0): legitimate only for headers no encodable request can have - and not for a
	// frame with an unsupported function code (any code but 0 that is not one of the ten), which must be "classified as
	// such": delimited by its length field so that the stream can be resynchronised behind it
	if fc != 0 && !spec.Supported(fc) && length >= 3 {
		res.Violate(ev.Violation{Check: "header", Kind: "unsupported-fc-not-classified", Attrs: attrs, Msg: fmt.Sprintf("header %s (unsupported function %d, length %d) was rejected as not Modbus (%v) instead of being classified as an unsupported function with expected length %d", ev.Hex(h), fc, length, err, 6+length), Case: mk()})
		return
	}
	if length >= 2 && spec.Supported(fc) && couldBeRequest(fc, length) {
		res.Violate(ev.Violation{Check: "header", Kind: "rejects-encodable-header", Attrs: attrs, Msg: fmt.Sprintf("header %s (fc %d, length %d) is the header of an encodable request but was rejected: %v", ev.Hex(h), fc, length, err), Case: mk()})
	}
}

// couldBeRequest: is `length` (bytes after the length field) the MBAP length of some legal request of function fc?
func couldBeRequest(fc uint8, length int) bool {
	switch fc {
	case 1, 2, 3, 4, 5, 6:
		return length == 6
	case 17:
		return length == 2
	case 15:
		return length >= 7+1 && length <= 7+246
	case 16:
		return length >= 7+2 && length <= 7+246 && (length-7)%2 == 0
	case 23:
		return length >= 11+2 && length <= 11+242 && (length-11)%2 == 0
	}
	return false
}

func fcClass(fc uint8) string {
	switch {
	case fc == 0:
		return "0"
	case spec.Supported(fc):
		return fmt.Sprintf("supported-%d", fc)
	case fc < 128:
		return "unsupported<128"
	}
	return ">=128"
}

func lenClass(n int) string {
	switch {
	case n <= 3:
		return fmt.Sprint(n)
	case n <= 254:
		return "4..254"
	}
	return ">254"
}

func evalDelimited(frame []byte, allow bool, res *ev.Result, lc *local) {
	lc.evals++
	n, err, pan := classify(frame, allow)
	fc := frame[7]
	attrs := map[string]any{"allow": allow, "fc_class": fcClass(fc)}
	mk := func() Case { return Case{Part: "delimited", Data: hex.EncodeToString(frame), Allow: allow} }
	if pan != "" || err != nil || n != len(frame) {
		return // not accepted with this length: nothing to check here (header part covers the classification)
	}
	lc.nontrivial++
	dispatch(frame[:n:n], frame, allow, attrs, res, mk)
}

// dispatch: what the classifier accepted with expected length n is, once n bytes are available, either parsed by the
// request dispatcher or rejected with an error that encodes to a valid exception reply.
func dispatch(delimited, frame []byte, allow bool, attrs map[string]any, res *ev.Result, mk func() Case) {
	n := len(delimited)
	fc := frame[7]
	var v packet.Request
	var perr error
	pan := ""
	func() {
		defer func() {
			if rec := recover(); rec != nil {
				pan = fmt.Sprint(rec)
			}
		}()
		v, perr = packet.ParseTCPRequest(delimited)
	}()
	if pan != "" {
		res.Violate(ev.Violation{Check: "delimited", Kind: "dispatcher-panic", Attrs: attrs, Msg: fmt.Sprintf("classifier accepted %s (n=%d) but ParseTCPRequest panicked: %s", ev.Hex(frame), n, pan), Case: mk()})
		return
	}
	if perr == nil {
		if lib.IsNil(v) {
			res.Violate(ev.Violation{Check: "delimited", Kind: "nil-nil", Attrs: attrs, Msg: "ParseTCPRequest returned nil, nil", Case: mk()})
		}
		return
	}
	pe, ok := perr.(*packet.ErrorParseTCP)
	if !ok {
		res.Violate(ev.Violation{Check: "delimited", Kind: "error-not-ErrorParseTCP", Attrs: attrs, Msg: fmt.Sprintf("frame %s accepted by the classifier; ParseTCPRequest error has type %T (%v), the server asserts *packet.ErrorParseTCP", ev.Hex(frame), perr, perr), Case: mk()})
		return
	}
	b := pe.Bytes()
	if len(b) != 9 || b[2] != 0 || b[3] != 0 || b[4] != 0 || b[5] != 3 || b[7]&0x80 == 0 {
		res.Violate(ev.Violation{Check: "delimited", Kind: "error-not-valid-exception", Attrs: attrs, Msg: fmt.Sprintf("frame %s: parse error encodes to %s which is not a 9-byte exception ADU", ev.Hex(frame), ev.Hex(b)), Case: mk()})
		return
	}
	if !allow && (b[0] != frame[0] || b[1] != frame[1] || b[6] != frame[6] || b[7] != fc|0x80) {
		res.Violate(ev.Violation{Check: "delimited", Kind: "exception-not-addressed", Attrs: attrs, Msg: fmt.Sprintf("frame %s: parse error encodes to %s (tid/unit/function do not match the request)", ev.Hex(frame), ev.Hex(b)), Case: mk()})
	}
}

func encodable() []spec.Req {
	var out []spec.Req
	for _, fc := range []uint8{1, 2, 3, 4} {
		max := uint16(125)
		if fc <= 2 {
			max = 2000
		}
		for _, q := range []uint16{1, 2, max} {
			for _, a := range []uint16{0, 0x6B, 65535} {
				out = append(out, spec.Req{FC: fc, Addr: a, Qty: q})
			}
		}
	}
	out = append(out, spec.Req{FC: 5, Addr: 0xAC, Value: spec.CoilOn}, spec.Req{FC: 5, Addr: 0, Value: spec.CoilOff}, spec.Req{FC: 6, Addr: 1, Value: 3}, spec.Req{FC: 6, Addr: 65535, Value: 65535}, spec.Req{FC: 17})
	for q := 1; q <= 1968; q++ {
		if q > 40 && q%8 > 1 && q < 1960 {
			continue
		}
		out = append(out, spec.Req{FC: 15, Addr: 0x13, Qty: uint16(q), Data: lib.Pattern("pos", (q+7)/8, 0)})
	}
	// (the loops go past the specification's limits 123 / 121 on purpose: whatever the library's constructors agree to
	// encode is "a request frame the library can encode"; what they refuse is skipped)
	for q := 1; q <= 126; q++ {
		out = append(out, spec.Req{FC: 16, Addr: 1, Qty: uint16(q), Data: lib.Pattern("pos", 2*q, 0)})
	}
	for q := 1; q <= 126; q++ {
		out = append(out, spec.Req{FC: 23, Addr: 3, Qty: 6, WAddr: 14, WQty: uint16(q), Data: lib.Pattern("pos", 2*q, 0)})
	}
	return out
}

func run(tier string, shard, nsh int, res *ev.Result) {
	if err := spec.SelfCheck(); err != nil {
		panic(err)
	}
	thorough := tier == "thorough"
	var jobs []func(lc *local)
	add := func(f func(lc *local)) { jobs = append(jobs, f) }
	// (a) library-encoded requests x every prefix
	reqs := encodable()
	for chunk := 0; chunk < len(reqs); chunk += 50 {
		chunk := chunk
		add(func(lc *local) {
			for i := chunk; i < chunk+50 && i < len(reqs); i++ {
				for _, tidunit := range [][2]uint16{{0x0102, 0x11}, {0, 0}, {65535, 255}} {
					r := reqs[i]
					r.TID, r.Unit = tidunit[0], uint8(tidunit[1])
					q, err := lib.NewRequest(r, false)
					if err != nil || lib.IsNil(q) {
						continue
					}
					full := q.Bytes()
					if tidunit[0] == 0x0102 {
						// the same request with its (exported) ProtocolID field set to something else: whatever the library then
						// encodes is "a request frame the library can encode" as well
						lib.SetField(q, "ProtocolID", 1)
						alt := q.Bytes()
						lib.SetField(q, "ProtocolID", 0)
						for _, allow := range []bool{false, true} {
							for _, l := range []int{8, len(alt) - 1, len(alt)} {
								if l >= 8 && l <= len(alt) {
									evalPrefix(alt[:l:l], len(alt), r.FC, allow, res, lc)
								}
							}
						}
					}
					for _, allow := range []bool{false, true} {
						for l := 0; l <= len(full); l++ {
							evalPrefix(full[:l:l], len(full), r.FC, allow, res, lc)
						}
						// prefix followed by the start of another frame (stream situation)
						evalPrefix(append(append([]byte(nil), full...), 0xDE, 0xAD, 0xBE), len(full), r.FC, allow, res, lc)
					}
				}
			}
		})
	}
	// (b) every 8-byte header
	var lengths []int
	if thorough {
		for l := 0; l < 65536; l++ {
			lengths = append(lengths, l)
		}
	} else {
		seen := map[int]bool{}
		for l := 0; l <= 300; l++ {
			seen[l] = true
			lengths = append(lengths, l)
		}
		for _, l := range lib.B16 {
			if !seen[int(l)] {
				lengths = append(lengths, int(l))
			}
		}
	}
	for fc := 0; fc < 256; fc++ {
		fc := fc
		add(func(lc *local) {
			h := make([]byte, 8)
			for _, proto := range []uint16{0, 1, 0x0100, 0xFFFF} {
				for _, un := range lib.B8 {
					if proto != 0 && un != 1 && un != 255 {
						continue
					}
					for _, l := range lengths {
						// the transaction id changes from one call to the next while function and unit stay the same (an answer
						// remembered from an earlier call with the same function / unit must not come back)
						h[0], h[1] = 0x12^byte(l*7), byte(un)^0x34^byte(l)
						h[2], h[3] = byte(proto>>8), byte(proto)
						h[4], h[5] = byte(l>>8), byte(l)
						h[6], h[7] = un, byte(fc)
						evalHeader(h, false, res, lc)
						if un == 1 || un == 255 {
							evalHeader(h, true, res, lc)
						}
					}
				}
			}
		})
	}
	// (c) delimited frames for every accepted header with n <= 400 (and 65541)
	for fc := 1; fc < 256; fc++ {
		fc := fc
		if !thorough && fc > 40 && fc != 99 && fc != 127 && fc != 128 && fc != 255 && fc != 0x83 {
			continue
		}
		add(func(lc *local) {
			ns := []int{}
			for n := 8; n <= 400; n++ {
				ns = append(ns, n)
			}
			ns = append(ns, 65541)
			for _, n := range ns {
				for fam := 0; fam < 6; fam++ {
					f := make([]byte, n)
					f[0], f[1] = 0xAB, 0xCD
					f[4], f[5] = byte((n-6)>>8), byte(n-6)
					f[6], f[7] = 0x2A, byte(fc)
					body := f[8:]
					switch fam {
					case 0: // zeros
					case 1:
						for i := range body {
							body[i] = 0xFF
						}
					case 2: // consistent byte counts for requests (offset 12 / 16) with legal quantities
						for i := range body {
							body[i] = byte(i + 1)
						}
						if n > 12 {
							f[10], f[11] = 0, 1
							f[12] = byte(n - 13)
						}
						if n > 16 {
							f[14], f[15] = 0, 1
							f[16] = byte(n - 17)
						}
					case 3: // legal small quantities everywhere
						for i := 0; i+1 < len(body); i += 2 {
							body[i], body[i+1] = 0, 1
						}
					case 4: // FC5-style value FF00
						for i := 0; i+1 < len(body); i += 2 {
							body[i], body[i+1] = 0xFF, 0
						}
					case 5: // FC15/16 consistent: quantity matches byte count
						if n > 12 {
							bc := n - 13
							f[12] = byte(bc)
							q := bc / 2
							if fc == 15 {
								q = bc * 8
							}
							f[10], f[11] = byte(q>>8), byte(q)
						}
						if n > 16 && fc == 23 {
							bc := n - 17
							f[16] = byte(bc)
							f[10], f[11] = 0, 6
							f[14], f[15] = byte(bc/2>>8), byte(bc/2)
						}
					}
					evalDelimited(f, false, res, lc)
					evalDelimited(f, true, res, lc)
				}
			}
		})
	}
	var mu sync.Mutex
	var tot local
	ev.Par(len(jobs), runtime.NumCPU(), func(i int) {
		var lc local
		jobs[i](&lc)
		mu.Lock()
		tot.evals += lc.evals
		tot.nontrivial += lc.nontrivial
		mu.Unlock()
	})
	res.Add("evaluations", tot.evals)
	res.DistinctAdd("nontrivial", tot.nontrivial)
	res.Axis("library-encoded request frames x every prefix length", "full prefixes; FC16/23 every size, FC15 every size<=40 + every byte-count boundary", int64(len(reqs)))
	res.Axis("8-byte header: length field x function code", map[bool]string{true: "full 65536 x 256", false: "(0..300 + B16) x 256"}[thorough], int64(len(lengths))*256)
	res.Axis("delimited frames: expected length 8..400 (+65541) x function code x 6 body families", "full lengths", 394*6)
	res.Sample(Case{Part: "prefix", Data: "0102000000061103006b", Full: 12})
	res.Sample(Case{Part: "header", Data: "1235000000061163"})
	res.Sample(Case{Part: "delimited", Data: "abcd000000062a0300000001"})
}

func replay(check string, raw json.RawMessage, res *ev.Result) {
	var c Case
	json.Unmarshal(raw, &c)
	b, _ := hex.DecodeString(c.Data)
	var lc local
	switch c.Part {
	case "prefix":
		fc := uint8(0)
		if len(b) > 7 {
			fc = b[7]
		}
		evalPrefix(b, c.Full, fc, c.Allow, res, &lc)
	case "header":
		evalHeader(b, c.Allow, res, &lc)
	case "delimited":
		evalDelimited(b, c.Allow, res, &lc)
	}
}

func main() {
	ev.Main(ev.Spec{
		Property: prop, Level: "exploration",
		Rule: "(a) every prefix of every library-encoded request; (b) every 8-byte header over the declared product; (c) every delimited frame length 8..400 per function code x 6 body families to ParseTCPRequest. " +
			"non-trivial = inputs the classifier accepted or classified as unsupported (distinct by construction)",
		Assumptions: []string{"function codes 0 and >=128 are not required to produce a matching exception (the statement defines it for unsupported request codes)",
			"bodies of delimited frames come from 6 filler families, not all byte strings (C10 covers arbitrary bytes for panics)"},
		Run: run, Replay: replay,
	})
}
