package main

// Two request calls on ONE client (non-initial state): after a reply that was accepted, a corrupted reply must still be
// refused - whatever the client remembers of the first exchange (a reused receive buffer, a "last verified frame", a
// cached CRC) must not stand in for the check of the second.

import (
	"context"
	"errors"
	"fmt"
	"io"
	"net"
	"os"
	"time"

	modbus "github.com/aldas/go-modbus-client"
	"github.com/aldas/go-modbus-client/packet"
	"github.com/aldas/go-modbus-client/verifshim/vtime"
	"verif/ev"
	"verif/lib"
	"verif/spec"
)

type seqConn struct {
	serial  bool
	replies [][]byte // reply to the n-th write
	cut     int      // the second reply arrives in two reads, cut here (0 = whole)
	nw      int
	chunks  [][]byte
	rdl     time.Time
}

func (c *seqConn) Write(p []byte) (int, error) {
	if c.nw < len(c.replies) {
		r := c.replies[c.nw]
		if c.nw == 1 && c.cut > 0 && c.cut < len(r) {
			c.chunks = append(c.chunks, append([]byte(nil), r[:c.cut]...), append([]byte(nil), r[c.cut:]...))
		} else {
			c.chunks = append(c.chunks, append([]byte(nil), r...))
		}
	}
	c.nw++
	return len(p), nil
}

func (c *seqConn) Read(p []byte) (int, error) {
	vtime.Advance(10 * time.Microsecond)
	if len(c.chunks) == 0 {
		if c.serial {
			vtime.Advance(time.Millisecond)
			return 0, nil
		}
		vtime.AdvanceTo(c.rdl)
		return 0, os.ErrDeadlineExceeded
	}
	n := copy(p, c.chunks[0])
	if n < len(c.chunks[0]) {
		c.chunks[0] = c.chunks[0][n:]
	} else {
		c.chunks = c.chunks[1:]
	}
	return n, nil
}
func (c *seqConn) Close() error                       { return nil }
func (c *seqConn) Flush() error                       { return nil }
func (c *seqConn) LocalAddr() net.Addr                { return &net.TCPAddr{} }
func (c *seqConn) RemoteAddr() net.Addr               { return &net.TCPAddr{} }
func (c *seqConn) SetDeadline(t time.Time) error      { c.rdl = t; return nil }
func (c *seqConn) SetReadDeadline(t time.Time) error  { c.rdl = t; return nil }
func (c *seqConn) SetWriteDeadline(t time.Time) error { return nil }

type SeqCase struct {
	Kind    string   `json:"client"`
	Req     spec.Req `json:"request"`
	Second  spec.Req `json:"second_request"`
	Corrupt string   `json:"corruption"`
	Frame   string   `json:"second_reply_hex"`
	Cut     int      `json:"second_reply_cut,omitempty"`
	// FirstBad: the first reply is itself damaged (its last byte flipped), so the first call FAILS; the second reply is
	// then judged from the state a failed call leaves behind
	FirstBad bool `json:"first_reply_damaged,omitempty"`
}

func evalSeq(c SeqCase, res *ev.Result, lc *local) {
	lc.evals++
	dev := spec.NewDevice(spec.ImageHash, spec.BitImage)
	q1, err := lib.NewRequest(c.Req, true)
	if err != nil {
		panic(err)
	}
	q2, err := lib.NewRequest(c.Second, true)
	if err != nil {
		panic(err)
	}
	d1, _ := spec.DecodeReq(q1.Bytes(), true)
	good1 := dev.Handle(d1).Frame(true)
	var frame []byte
	fmt.Sscanf(c.Frame, "%x", &frame)
	if c.FirstBad {
		good1 = append([]byte(nil), good1...)
		good1[len(good1)-1] ^= 0x01
	}
	conn := &seqConn{serial: c.Kind != "rtu-net", replies: [][]byte{good1, frame}, cut: c.Cut}
	vtime.ResetClock()
	var do func(context.Context, packet.Request) (packet.Response, error)
	switch c.Kind {
	case "rtu-net":
		cl := modbus.NewRTUClientWithConfig(modbus.ClientConfig{ReadTimeout: 5 * time.Millisecond, DialContextFunc: func(ctx context.Context, a string) (net.Conn, error) { return conn, nil }})
		cl.Connect(context.Background(), "x")
		do = cl.Do
	case "serial":
		do = modbus.NewSerialClient(struct{ io.ReadWriteCloser }{conn}, modbus.WithSerialReadTimeout(5*time.Millisecond)).Do
	default:
		do = modbus.NewSerialClient(conn, modbus.WithSerialReadTimeout(5*time.Millisecond)).Do
	}
	bad := func(kind, msg string) {
		res.Violate(ev.Violation{Check: "crc-sequence", Kind: kind, Attrs: map[string]any{"client": c.Kind, "corruption_class": c.Corrupt},
			Msg: fmt.Sprintf("%s client, second call after an accepted reply %x: second reply %s (%s): %s", c.Kind, good1, c.Frame, c.Corrupt, msg), Case: c})
	}
	r1, e1 := lib.SafeDo(do, context.Background(), q1)
	var ex1 *packet.ErrorResponseRTU
	if c.FirstBad {
		if e1 == nil {
			return // (a damaged first reply that is accepted is reported by the main check)
		}
	} else if !(e1 == nil && !lib.IsNil(r1)) && !errors.As(e1, &ex1) {
		return // the first exchange neither succeeded nor ended in the device's exception: C07's business (known findings live there)
	}
	r2, e2 := lib.SafeDo(do, context.Background(), q2)
	lc.nontrivial++
	if _, isPanic := e2.(*lib.PanicError); isPanic {
		bad("panic-or-hang", e2.Error())
		return
	}
	if !lib.IsNil(r2) || e2 == nil {
		bad("bad-crc-returned-as-data", fmt.Sprintf("call returned (%T %v, %v)", r2, r2, e2))
		return
	}
	var ex *packet.ErrorResponseRTU
	if errors.As(e2, &ex) {
		bad("bad-crc-surfaced-as-exception", fmt.Sprintf("error unwraps to device exception %+v", *ex))
	}
}

func sequenceCheck(res *ev.Result, lc *local) {
	reqs := []spec.Req{
		{FC: 3, Unit: 1, Addr: 10, Qty: 2}, {FC: 1, Unit: 1, Addr: 3, Qty: 19}, {FC: 6, Unit: 1, Addr: 9, Value: 0x1234},
		{FC: 16, Unit: 1, Addr: 20, Qty: 2, Data: []byte{1, 2, 3, 4}}, {FC: 3, Unit: 1, Addr: 0xFFFF, Qty: 2}, // the last one is answered with an exception
	}
	dev := spec.NewDevice(spec.ImageHash, spec.BitImage)
	for _, kind := range []string{"rtu-net", "serial", "serial-flusher"} {
		for _, first := range reqs {
			for _, second := range reqs {
				// the second request is the same as the first, or another one whose reply may have the same length
				q2, err := lib.NewRequest(second, true)
				if err != nil {
					panic(err)
				}
				d2, _ := spec.DecodeReq(q2.Bytes(), true)
				// device state after the first request (writes)
				dd := dev.Clone()
				q1, _ := lib.NewRequest(first, true)
				d1, _ := spec.DecodeReq(q1.Bytes(), true)
				dd.Handle(d1)
				good2 := dd.Handle(d2).Frame(true)
				try := func(class string, f []byte) {
					if !badCRC(f) {
						return
					}
					evalSeq(SeqCase{Kind: kind, Req: first, Second: second, Corrupt: class, Frame: fmt.Sprintf("%x", f)}, res, lc)
					if len(f) > 5 {
						// the same, with the first look at the reply being exactly the 5 bytes an exception frame would have
						evalSeq(SeqCase{Kind: kind, Req: first, Second: second, Corrupt: class, Frame: fmt.Sprintf("%x", f), Cut: 5}, res, lc)
					}
				}
				for i := 0; i < len(good2)*8; i++ {
					f := append([]byte(nil), good2...)
					f[i/8] ^= 1 << uint(i%8)
					try("bit-flip", f)
				}
				for i := range good2 {
					for _, v := range []byte{0x00, 0xFF, good2[i] + 1, good2[i] ^ 0x14} {
						if v == good2[i] {
							continue
						}
						f := append([]byte(nil), good2...)
						f[i] = v
						try("byte-substitution", f)
					}
				}
			}
		}
	}
	// second pass (kept apart from the first so that the order of the calls above - which is what exposes state that
	// outlives a client - stays what it was): the next reply preceded / followed by stray bytes in the same read, after a
	// call that FAILED (its reply was damaged) and after one that succeeded
	for _, kind := range []string{"rtu-net", "serial", "serial-flusher"} {
		for _, first := range reqs {
			for _, second := range reqs {
				q2, err := lib.NewRequest(second, true)
				if err != nil {
					panic(err)
				}
				d2, _ := spec.DecodeReq(q2.Bytes(), true)
				dd := dev.Clone()
				q1, _ := lib.NewRequest(first, true)
				d1, _ := spec.DecodeReq(q1.Bytes(), true)
				dd.Handle(d1)
				good2 := dd.Handle(d2).Frame(true)
				for _, junk := range [][]byte{{0x5A}, {0x00, 0x37}, {0xFF, 0x10, 0x22}} {
					ext := append(append([]byte(nil), good2...), junk...)
					pre := append(append([]byte(nil), junk...), good2...)
					for _, f := range [][]byte{ext, pre} {
						if badCRC(f) {
							evalSeq(SeqCase{Kind: kind, Req: first, Second: second, Corrupt: "stray-bytes-after-failed-call", Frame: fmt.Sprintf("%x", f), FirstBad: true}, res, lc)
							evalSeq(SeqCase{Kind: kind, Req: first, Second: second, Corrupt: "stray-bytes", Frame: fmt.Sprintf("%x", f)}, res, lc)
						}
					}
				}
			}
		}
	}
}
