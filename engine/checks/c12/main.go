// C12 — over RTU, a bad-CRC reply is never surfaced as data or as a device exception.
package main

import (
	"encoding/hex"
	"encoding/json"
	"errors"
	"fmt"
	"io"
	"os"

	"github.com/aldas/go-modbus-client/packet"
	"verif/clientx"
	"verif/ev"
	"verif/lib"
	"verif/spec"
)

const prop = "C12"

type Case struct {
	Kind    int      `json:"kind"`
	Req     spec.Req `json:"req"`
	ExcCode int      `json:"exc_code"`
	Corrupt string   `json:"corruption"`
	EOF     bool     `json:"then_eof,omitempty"` // the peer closes the stream after the (corrupted) reply
	Frame   string   `json:"corrupted_frame_hex"`
	Cut     int      `json:"cut"` // 0 = delivered whole, k = first read delivers k bytes
}

// deliver is the delivery policy: the (corrupted) frame whole, or cut once at position Cut; afterwards silence.
type deliver struct {
	kind clientx.Kind
	cut  int
	eof  bool // after the bytes the peer closes the stream (otherwise the line stays silent)
}

func (d *deliver) Read(t *clientx.Transport, bufLen int) clientx.ReadAnswer {
	r := t.Remaining()
	if r == 0 && d.eof {
		return clientx.ReadAnswer{Err: io.EOF, Label: "eof"}
	}
	if r == 0 {
		if d.kind.IsSerial() {
			return clientx.ReadAnswer{Timeout: true}
		}
		return clientx.ReadAnswer{Timeout: true, Err: clientx.TimeoutErr()}
	}
	if d.cut > 0 && t.Delivered < d.cut {
		return clientx.ReadAnswer{N: d.cut - t.Delivered}
	}
	return clientx.ReadAnswer{N: r}
}
func (d *deliver) Write(t *clientx.Transport, data []byte) error { return nil }
func (d *deliver) SetWriteDeadline(t *clientx.Transport) error   { return nil }

func badCRC(f []byte) bool {
	if len(f) < 3 {
		return true
	}
	c := spec.CRC(f[:len(f)-2])
	return f[len(f)-2] != byte(c) || f[len(f)-1] != byte(c>>8)
}

type local struct{ evals, nontrivial int64 }

func eval(sc clientx.Sc, c Case, frame []byte, res *ev.Result, lc *local) {
	lc.evals++
	run := clientx.Execute(sc.Scenario, sc.Q, &deliver{kind: sc.Kind, cut: c.Cut, eof: c.EOF}, clientx.Options{ReplyOverride: frame, ReadTimeout: 5e6})
	first5exc := len(frame) >= 5 && frame[1]&0x80 != 0
	attrs := map[string]any{"client": sc.Kind.String(), "corruption_class": c.Corrupt, "five_byte_exception_window": first5exc && (c.Cut == 5 || len(frame) == 5), "_fc": int(sc.Req.FC)}
	bad := func(kind, msg string) {
		res.Violate(ev.Violation{Check: "crc", Kind: kind, Attrs: attrs, Msg: fmt.Sprintf("%s corruption=%s frame=%s cut=%d: %s", sc.Name, c.Corrupt, ev.Hex(frame), c.Cut, msg), Case: c})
	}
	if run.Hang || run.Panic != "" {
		bad("panic-or-hang", run.Panic)
		return
	}
	// The property speaks about the reply the client was given. Judge the bytes the client actually consumed: if it stopped
	// reading at a point where the consumed bytes form a frame with a consistent CRC (unread garbage follows on the line,
	// or a truncation/corruption happens to be CRC-consistent), the case is outside the property.
	var consumed []byte
	for _, e := range run.Log {
		if e.Op == "read" {
			consumed = append(consumed, e.Data...)
		}
	}
	if !badCRC(consumed) {
		return
	}
	lc.nontrivial++
	if !lib.IsNil(run.Resp) || run.Err == nil {
		bad("bad-crc-returned-as-data", fmt.Sprintf("call returned (%T %v, %v)", run.Resp, run.Resp, run.Err))
		return
	}
	var e *packet.ErrorResponseRTU
	if errors.As(run.Err, &e) {
		bad("bad-crc-surfaced-as-exception", fmt.Sprintf("error unwraps to device exception %+v", *e))
	}
}

func scenarios() []clientx.Sc {
	var out []clientx.Sc
	for _, k := range []clientx.Kind{clientx.RTUNet, clientx.SerialFlusher} {
		for _, sc := range clientx.Scenarios(k, false) {
			if len(sc.Reply) > 40 {
				continue
			}
			out = append(out, sc)
		}
		for _, sc := range clientx.ExceptionScenarios(k, []int{1, 2, 4}) {
			if sc.Req.FC == 1 || sc.Req.FC == 3 || sc.Req.FC == 16 || sc.Req.FC == 17 || sc.Req.FC == 23 {
				out = append(out, sc)
			}
		}
	}
	return out
}

func mk(sc clientx.Sc, corrupt string, frame []byte, cut int) Case {
	c := Case{Kind: int(sc.Kind), Req: sc.Req, ExcCode: -1, Corrupt: corrupt, Frame: hex.EncodeToString(frame), Cut: cut}
	if sc.Exc {
		c.ExcCode = int(sc.ExcCode)
	}
	return c
}

func run(tier string, shard, nsh int, res *ev.Result) {
	thorough := tier == "thorough"
	scs := scenarios()
	var lc local
	if shard == 0 {
		sequenceCheck(res, &lc)
	}
	job := 0
	for _, sc := range scs {
		good := sc.Reply
		n := len(good)
		try := func(class string, f []byte) {
			if !badCRC(f) {
				return // CRC still consistent with the content: outside the property
			}
			job++
			if job%nsh != shard {
				return
			}
			cuts := []int{0}
			if thorough {
				for k := 1; k < len(f); k++ {
					cuts = append(cuts, k)
				}
			} else {
				for _, k := range []int{4, 5, 6, len(f) - 3, len(f) - 2, len(f) - 1, sc.Expected} {
					if k >= 1 && k < len(f) {
						cuts = append(cuts, k)
					}
				}
			}
			seen := map[int]bool{}
			for _, k := range cuts {
				if seen[k] {
					continue
				}
				seen[k] = true
				eval(sc, mk(sc, class, f, k), f, res, &lc)
				if k == 0 && (class == "truncation" || class == "extension" || thorough || job%5 == 0) {
					// the same bytes, after which the peer closes the stream instead of staying silent
					ce := mk(sc, class, f, k)
					ce.EOF = true
					eval(sc, ce, f, res, &lc)
				}
			}
		}
		for i := 0; i < n; i++ {
			for b := 0; b < 8; b++ {
				f := append([]byte(nil), good...)
				f[i] ^= 1 << uint(b)
				try("bit-flip", f)
			}
			for v := 0; v < 256; v++ {
				if byte(v) == good[i] {
					continue
				}
				if !thorough && n > 12 && i > 3 && i < n-3 && v%17 != 0 {
					continue
				}
				f := append([]byte(nil), good...)
				f[i] = byte(v)
				try("byte-substitution", f)
			}
		}
		pairs := [][2]int{}
		for i := 0; i+1 < n; i++ {
			pairs = append(pairs, [2]int{i, i + 1})
		}
		for i := 0; i < 3 && i < n-2; i++ {
			pairs = append(pairs, [2]int{i, n - 2}, [2]int{i, n - 1})
		}
		for _, pr := range pairs {
			for _, x := range lib.B8 {
				for _, y := range lib.B8 {
					f := append([]byte(nil), good...)
					f[pr[0]], f[pr[1]] = x, y
					try("two-byte", f)
				}
			}
		}
		// transpositions and rotations (a trailer sent high byte first, two swapped data bytes, a frame shifted by one)
		for i := 0; i+1 < n; i++ {
			if good[i] != good[i+1] {
				f := append([]byte(nil), good...)
				f[i], f[i+1] = f[i+1], f[i]
				try("transposition", f)
			}
		}
		if n >= 4 {
			f := append(append([]byte(nil), good[1:]...), good[0])
			try("rotation", f)
			f = append([]byte{good[n-1]}, good[:n-1]...)
			try("rotation", f)
			f = append([]byte(nil), good...)
			f[n-2], f[n-1] = ^f[n-2], ^f[n-1]
			try("trailer-inverted", f)
			f = append([]byte(nil), good...)
			f[n-2], f[n-1] = 0, 0
			try("trailer-zero", f)
		}
		for k := 1; k < n; k++ {
			try("truncation", append([]byte(nil), good[:k]...))
		}
		for ext := 1; ext <= 3; ext++ {
			for _, x := range lib.B8 {
				f := append([]byte(nil), good...)
				for j := 0; j < ext; j++ {
					f = append(f, x+byte(j))
				}
				try("extension", f)
			}
		}
	}
	res.Add("evaluations", lc.evals)
	res.DistinctAdd("nontrivial", lc.nontrivial)
	if shard == 0 {
		res.Axis("RTU reply shape", "10 functions (replies <= 40 bytes) + exception replies, rtu-net and serial clients", int64(len(scs)))
		res.Axis("corruption", "every single-bit flip; every single-byte substitution; two-byte B8xB8 on adjacent and header/trailer pairs; every transposition of adjacent bytes, rotations, inverted / zero trailer; every truncation; extensions by 1..3 bytes", 0)
		res.Axis("delivery", map[bool]string{true: "whole + every single cut", false: "whole + cuts at {4,5,6,n-3..n-1,expected}"}[thorough], 0)
		res.Sample(mk(scs[0], "bit-flip", []byte{0x11, 0x81, 0x01}, 5))
	}
}

func replay(check string, raw json.RawMessage, res *ev.Result) {
	if check == "crc-sequence" {
		var c SeqCase
		json.Unmarshal(raw, &c)
		var lc local
		evalSeq(c, res, &lc)
		return
	}
	var c Case
	json.Unmarshal(raw, &c)
	f, _ := hex.DecodeString(c.Frame)
	for _, sc := range scenarios() {
		b := mk(sc, c.Corrupt, f, c.Cut)
		if b.Kind == c.Kind && fmt.Sprint(b.Req) == fmt.Sprint(c.Req) && b.ExcCode == c.ExcCode {
			var lc local
			eval(sc, c, f, res, &lc)
			return
		}
	}
	fmt.Fprintln(os.Stderr, "scenario not found")
}

func main() {
	ev.Main(ev.Spec{
		Property: prop, Level: "fault_enumeration",
		Rule: "every corruption of the declared classes of every RTU reply shape whose trailer is inconsistent with the CRC of the rest, delivered whole and with every single cut, to the RTU network client and the serial client; " +
			"oracle: nil response, error that does not unwrap to a device exception. non-trivial = executions completed (distinct corrupted frame x delivery by construction)",
		Assumptions: []string{"corruptions that leave the CRC consistent are outside the property and skipped", "after the corrupted bytes the line stays silent (virtual clock runs into the 5 ms read timeout)"},
		Run:         run, Replay: replay,
		Shards: func(tier string) int { return 16 },
	})
}
