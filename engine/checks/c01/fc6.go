package main

import "github.com/aldas/go-modbus-client/packet"

func newFC6(c Case, d []byte) (interface{ Bytes() []byte }, error) {
	if c.RTU {
		q, err := packet.NewWriteSingleRegisterRequestRTU(c.Unit, c.Addr, d)
		if q == nil {
			return nil, err
		}
		return q, err
	}
	q, err := packet.NewWriteSingleRegisterRequestTCP(c.Unit, c.Addr, d)
	if q == nil {
		return nil, err
	}
	q.TransactionID = c.TID
	return q, err
}

func newFC15(c Case, coils []bool) (interface{ Bytes() []byte }, error) {
	if c.RTU {
		q, err := packet.NewWriteMultipleCoilsRequestRTU(c.Unit, c.Addr, coils)
		if q == nil {
			return nil, err
		}
		return q, err
	}
	q, err := packet.NewWriteMultipleCoilsRequestTCP(c.Unit, c.Addr, coils)
	if q == nil {
		return nil, err
	}
	q.TransactionID = c.TID
	return q, err
}
