// C01 — encoded requests are exactly the ADUs the Modbus specification defines.
// Bounded-exhaustive enumeration of constructor arguments; oracle = spec encoder + legality + size limits.
package main

import (
	"bytes"
	"encoding/json"
	"fmt"
	"runtime"
	"sync"

	"verif/ev"
	"verif/lib"
	"verif/spec"
)

const prop = "C01"

// Case is one constructor call, replayable.
type Case struct {
	FC      uint8  `json:"fc"`
	RTU     bool   `json:"rtu"`
	Unit    uint8  `json:"unit"`
	TID     uint16 `json:"tid"`
	Addr    uint16 `json:"addr"`
	Qty     uint16 `json:"qty"`     // FC1-4, FC23 read quantity
	Value   uint16 `json:"value"`   // FC5 / FC6
	WAddr   uint16 `json:"waddr"`   // FC23
	N       int    `json:"n"`       // FC15: coil count; FC16/23: payload byte length; FC6: data slice length
	Pattern string `json:"pattern"` // payload pattern
	K       int    `json:"k"`       // pattern parameter
}

type local struct {
	evals, accepted int64
}

func (c Case) payload() []byte {
	switch c.FC {
	case 15:
		return lib.Pattern(c.Pattern, (c.N+7)/8, c.K)
	case 16, 23:
		return lib.Pattern(c.Pattern, c.N, c.K)
	}
	return nil
}

// decoy constructs and serialises a different request of the same function and framing (see eval).
func decoy(c Case) {
	defer func() { recover() }()
	d := spec.Req{FC: c.FC, Unit: c.Unit ^ 0x55, TID: c.TID ^ 0xFFFF, Addr: c.Addr ^ 0x0F0F, Qty: 1, Value: spec.CoilOn, WAddr: 9}
	switch c.FC {
	case 15:
		d.Qty, d.Data = 40, []byte{0xA5, 0x5A, 0xA5, 0x5A, 0xA5}
	case 16:
		d.Qty, d.Data = 3, []byte{0xA5, 0x5A, 0xA5, 0x5A, 0xA5, 0x5A}
	case 23:
		d.Qty, d.WQty, d.Data = 2, 3, []byte{0xA5, 0x5A, 0xA5, 0x5A, 0xA5, 0x5A}
	case 6:
		d.Value = 0xA55A
	}
	if q, err := lib.NewRequest(d, c.RTU); err == nil && !lib.IsNil(q) {
		_ = q.Bytes()
	}
}

func eval(c Case, res *ev.Result, lc *local) {
	lc.evals++
	framing := "tcp"
	if c.RTU {
		framing = "rtu"
	}
	attrs := func(extra map[string]any) map[string]any {
		m := map[string]any{"fc": int(c.FC), "framing": framing}
		for k, v := range extra {
			m[k] = v
		}
		return m
	}
	r := spec.Req{FC: c.FC, Unit: c.Unit, TID: c.TID, Addr: c.Addr, Qty: c.Qty, Value: c.Value, WAddr: c.WAddr}
	var want spec.Req
	var got []byte
	var err error
	var nilv bool
	func() {
		defer func() {
			if rec := recover(); rec != nil {
				res.Violate(ev.Violation{Check: "ctor", Kind: "panic", Attrs: attrs(nil), Msg: fmt.Sprintf("constructor/Bytes panicked: %v for %+v", rec, c), Case: c})
				err = fmt.Errorf("panic")
			}
		}()
		switch c.FC {
		case 15:
			data := c.payload()
			coils := lib.Bits(data, c.N)
			r.Qty = uint16(c.N)
			r.Data = data
			want = r
			want.Data = spec.PackBits(coils)
		case 16:
			r.Data = c.payload()
			r.Qty = uint16(c.N / 2)
			want = r
		case 23:
			r.Data = c.payload()
			r.WQty = uint16(c.N / 2)
			want = r
		case 6:
			want = r
		default:
			want = r
		}
		var q interface {
			Bytes() []byte
		}
		if c.FC == 15 {
			q, err = newFC15(c, lib.Bits(r.Data, c.N))
		} else if c.FC == 6 && c.N != 2 {
			// constructor silently pads/truncates other lengths; only a legal frame is demanded
			d := lib.Pattern("pos", c.N, 0)
			q, err = newFC6(c, d)
			want.Value = 0
			if len(d) >= 1 {
				want.Value = uint16(d[0]) << 8
			}
			if len(d) >= 2 {
				want.Value |= uint16(d[1])
			}
		} else {
			rq, e := lib.NewRequest(r, c.RTU)
			err = e
			if !lib.IsNil(rq) {
				q = rq
			}
		}
		nilv = q == nil || lib.IsNil(q)
		if err == nil && !nilv {
			// from a non-initial state: between constructing this request and serialising it, and between serialising it
			// and looking at the bytes, another request of the same kind with different content is constructed and
			// serialised (a constructor or encoder that keeps its bytes in shared / pooled storage shows here)
			decoy(c)
			ret := q.Bytes()
			got = append([]byte(nil), ret...)
			decoy(c)
			again := q.Bytes()
			if !bytes.Equal(got, again) {
				res.Violate(ev.Violation{Check: "ctor", Kind: "bytes-not-stable", Attrs: attrs(nil), Msg: fmt.Sprintf("Bytes() twice (another request constructed and serialised in between) differs: %s vs %s", ev.Hex(got), ev.Hex(again)), Case: c})
			}
		}
	}()
	if err != nil {
		if !nilv {
			res.Violate(ev.Violation{Check: "ctor", Kind: "value-with-error", Attrs: attrs(nil), Msg: fmt.Sprintf("constructor returned error %v together with a non-nil value", err), Case: c})
		}
		return
	}
	if nilv {
		res.Violate(ev.Violation{Check: "ctor", Kind: "nil-without-error", Attrs: attrs(nil), Msg: "constructor returned nil, nil", Case: c})
		return
	}
	lc.accepted++
	// legality of what was accepted. The true argument sizes are used (not the narrowed uint16 values).
	legal, why, extra := legality(c, want)
	if !legal {
		res.Violate(ev.Violation{Check: "ctor", Kind: "accepts-illegal", Attrs: attrs(extra), Msg: fmt.Sprintf("constructor accepted illegal arguments (%s): %+v -> %s", why, c, ev.Hex(got)), Case: c})
		return
	}
	exp := want.Frame(c.RTU)
	if !bytes.Equal(got, exp) {
		res.Violate(ev.Violation{Check: "ctor", Kind: "wrong-bytes", Attrs: attrs(map[string]any{"_first_diff": firstDiff(got, exp)}),
			Msg: fmt.Sprintf("%+v: Bytes() = %s, specification prescribes %s", c, ev.Hex(got), ev.Hex(exp)), Case: c})
		return
	}
	max := spec.MaxADUTCP
	if c.RTU {
		max = spec.MaxADURTU
	}
	if len(got) > max {
		res.Violate(ev.Violation{Check: "ctor", Kind: "adu-too-long", Attrs: attrs(map[string]any{"len": len(got)}), Msg: fmt.Sprintf("%+v: frame of %d bytes exceeds %d", c, len(got), max), Case: c})
	}
}

func legality(c Case, want spec.Req) (bool, string, map[string]any) {
	switch c.FC {
	case 15:
		if c.N < 1 || c.N > spec.MaxWriteBits {
			return false, fmt.Sprintf("coil count %d outside 1..1968", c.N), nattrs("coils", c.N, false)
		}
	case 16:
		if c.N%2 != 0 || c.N/2 < 1 || c.N/2 > spec.MaxWriteRegs {
			return false, fmt.Sprintf("register payload of %d bytes (%d registers) outside 1..123", c.N, c.N/2), nattrs("registers", c.N/2, c.N%2 != 0)
		}
	case 23:
		if c.Qty < 1 || c.Qty > spec.MaxRWReadRegs {
			return false, fmt.Sprintf("read quantity %d outside 1..125", c.Qty), map[string]any{"field": "read", "n": int(c.Qty)}
		}
		if c.N%2 != 0 || c.N/2 < 1 || c.N/2 > spec.MaxRWWriteRegs {
			return false, fmt.Sprintf("write payload of %d bytes (%d registers) outside 1..121", c.N, c.N/2), nattrs("write", c.N/2, c.N%2 != 0)
		}
	default:
		if !want.Legal() {
			return false, "quantity/value outside the specification's limits", map[string]any{"field": "qty", "n": int(c.Qty)}
		}
	}
	return true, "", nil
}

// nattrs: the offending count is part of the signature only while it is small; counts that only pass because the
// constructor narrows them to uint16 form one class.
func nattrs(field string, n int, odd bool) map[string]any {
	if n > 65535 {
		return map[string]any{"field": field, "n_class": "wraps-uint16", "_n": n, "odd": odd}
	}
	return map[string]any{"field": field, "n": n, "odd": odd}
}

func firstDiff(a, b []byte) int {
	for i := 0; i < len(a) && i < len(b); i++ {
		if a[i] != b[i] {
			return i
		}
	}
	if len(a) != len(b) {
		if len(a) < len(b) {
			return len(a)
		}
		return len(b)
	}
	return -1
}

func run(tier string, shard, nsh int, res *ev.Result) {
	if err := spec.SelfCheck(); err != nil {
		panic(err)
	}
	thorough := tier == "thorough"
	var jobs []func(lc *local)
	add := func(f func(lc *local)) { jobs = append(jobs, f) }
	units := lib.B8
	allUnits := make([]uint8, 256)
	for i := range allUnits {
		allUnits[i] = uint8(i)
	}
	for _, rtu := range []bool{false, true} {
		rtu := rtu
		// FC1-4: quantity full x address boundary x unit boundary ; unit full x address boundary at boundary quantities
		for _, fc := range []uint8{1, 2, 3, 4} {
			fc := fc
			for _, addr := range lib.B16 {
				addr := addr
				add(func(lc *local) {
					us := []uint8{0, 1, 17, 247, 255}
					if thorough {
						us = units
					}
					for _, u := range us {
						for q := 0; q < 65536; q++ {
							eval(Case{FC: fc, RTU: rtu, Unit: u, TID: addr ^ 0x5AA5, Addr: addr, Qty: uint16(q)}, res, lc)
						}
					}
					for _, u := range allUnits {
						for _, q := range lib.B16 {
							for _, tid := range []uint16{0, 1, 255, 256, 65535} {
								eval(Case{FC: fc, RTU: rtu, Unit: u, TID: tid, Addr: addr, Qty: q}, res, lc)
							}
						}
					}
				})
			}
			if fc == 3 && !rtu { // transaction id full
				add(func(lc *local) {
					for tid := 0; tid < 65536; tid++ {
						for _, q := range []uint16{1, 125} {
							eval(Case{FC: fc, RTU: rtu, Unit: 1, TID: uint16(tid), Addr: 0x6B, Qty: q}, res, lc)
						}
					}
				})
			}
		}
		// FC5 / FC6 / FC17
		add(func(lc *local) {
			for _, u := range allUnits {
				for _, addr := range lib.B16 {
					for _, tid := range []uint16{0, 1, 0x1234, 65535} {
						eval(Case{FC: 5, RTU: rtu, Unit: u, TID: tid, Addr: addr, Value: spec.CoilOn}, res, lc)
						eval(Case{FC: 5, RTU: rtu, Unit: u, TID: tid, Addr: addr, Value: spec.CoilOff}, res, lc)
						for _, v := range lib.B16 {
							eval(Case{FC: 6, RTU: rtu, Unit: u, TID: tid, Addr: addr, Value: v, N: 2}, res, lc)
						}
					}
				}
				for _, tid := range lib.B16 {
					eval(Case{FC: 17, RTU: rtu, Unit: u, TID: tid}, res, lc)
				}
			}
			for n := 0; n <= 4; n++ {
				for _, addr := range lib.B16 {
					eval(Case{FC: 6, RTU: rtu, Unit: 3, TID: 9, Addr: addr, N: n}, res, lc)
				}
			}
			for v := 0; v < 65536; v++ {
				eval(Case{FC: 6, RTU: rtu, Unit: 1, TID: 2, Addr: 3, Value: uint16(v), N: 2}, res, lc)
			}
		})
		// FC15: every coil count 0..2100 (+ wrap counts) x patterns
		for lo := 0; lo <= 2100; lo += 100 {
			lo := lo
			add(func(lc *local) {
				for n := lo; n < lo+100 && n <= 2100; n++ {
					for _, p := range []string{"pos", "zeros", "ones", "alt"} {
						for _, addr := range []uint16{0, 0x13, 65535} {
							eval(Case{FC: 15, RTU: rtu, Unit: 7, TID: 0x0102, Addr: addr, N: n, Pattern: p}, res, lc)
						}
					}
					step := 1
					if !thorough && n > 64 {
						step = 7
					}
					for k := 0; k < n; k += step {
						eval(Case{FC: 15, RTU: rtu, Unit: 7, TID: 0x0102, Addr: 0x13, N: n, Pattern: "onehot", K: k}, res, lc)
						eval(Case{FC: 15, RTU: rtu, Unit: 7, TID: 0x0102, Addr: 0x13, N: n, Pattern: "onecold", K: k}, res, lc)
					}
					if n > 0 {
						eval(Case{FC: 15, RTU: rtu, Unit: 7, TID: 0x0102, Addr: 0x13, N: n, Pattern: "onehot", K: n - 1}, res, lc)
						eval(Case{FC: 15, RTU: rtu, Unit: 7, TID: 0x0102, Addr: 0x13, N: n, Pattern: "onecold", K: n - 1}, res, lc)
					}
				}
			})
		}
		add(func(lc *local) {
			for _, n := range []int{65535, 65536, 65537, 65536 + 8, 65536 + 1968, 131072 + 1} {
				eval(Case{FC: 15, RTU: rtu, Unit: 7, TID: 1, Addr: 0, N: n, Pattern: "pos"}, res, lc)
			}
			for _, u := range allUnits {
				for _, addr := range lib.B16 {
					for _, n := range []int{1, 8, 9, 1968} {
						eval(Case{FC: 15, RTU: rtu, Unit: u, TID: addr, Addr: addr, N: n, Pattern: "pos"}, res, lc)
					}
				}
			}
		})
		// every start address (a frame whose last bytes happen to equal the CRC of what precedes them is one of these)
		add(func(lc *local) {
			for a := 0; a < 65536; a++ {
				eval(Case{FC: 3, RTU: rtu, Unit: 1, TID: 0x0102, Addr: uint16(a), Qty: 2}, res, lc)
				eval(Case{FC: 1, RTU: rtu, Unit: 17, TID: 0x0102, Addr: uint16(a), Qty: 9}, res, lc)
				eval(Case{FC: 5, RTU: rtu, Unit: 2, TID: 0x0102, Addr: uint16(a), Value: spec.CoilOn}, res, lc)
			}
		})
		// data values (not positions): every 16-bit value as register content / as a 16-coil pattern
		add(func(lc *local) {
			for v := 0; v < 65536; v++ {
				eval(Case{FC: 16, RTU: rtu, Unit: 8, TID: 0x0102, Addr: 0x20, N: 2, Pattern: "word", K: v}, res, lc)
				eval(Case{FC: 15, RTU: rtu, Unit: 7, TID: 0x0102, Addr: 0x13, N: 16, Pattern: "word", K: v}, res, lc)
				if v%16 == 0 || v < 300 || v > 65200 {
					eval(Case{FC: 16, RTU: rtu, Unit: 8, TID: 0x0102, Addr: 0x20, N: 6, Pattern: "word", K: v}, res, lc)
					eval(Case{FC: 23, RTU: rtu, Unit: 10, TID: 0x0A0B, Addr: 3, Qty: 2, WAddr: 14, N: 4, Pattern: "word", K: v}, res, lc)
					eval(Case{FC: 15, RTU: rtu, Unit: 7, TID: 0x0102, Addr: 0x13, N: 11, Pattern: "word", K: v}, res, lc)
				}
			}
		})
		// FC16: every payload byte length 0..300 (+ wrap lengths)
		add(func(lc *local) {
			for n := 0; n <= 300; n++ {
				for _, p := range []string{"pos", "zeros", "ones"} {
					for _, addr := range lib.B16 {
						eval(Case{FC: 16, RTU: rtu, Unit: 8, TID: 0xBEEF, Addr: addr, N: n, Pattern: p}, res, lc)
					}
				}
			}
			for n := 131070; n <= 131080; n++ {
				eval(Case{FC: 16, RTU: rtu, Unit: 8, TID: 1, Addr: 1, N: n, Pattern: "pos"}, res, lc)
			}
			for _, n := range []int{131072 + 246, 131072 + 248, 262144 + 2} {
				eval(Case{FC: 16, RTU: rtu, Unit: 8, TID: 1, Addr: 1, N: n, Pattern: "pos"}, res, lc)
			}
			for _, u := range allUnits {
				for _, addr := range lib.B16 {
					for _, n := range []int{2, 4, 246} {
						eval(Case{FC: 16, RTU: rtu, Unit: u, TID: addr, Addr: addr, N: n, Pattern: "pos"}, res, lc)
					}
				}
			}
		})
		// FC23: read quantity full x write length boundary ; write length 0..300 x read quantity boundary
		for _, wn := range []int{0, 1, 2, 4, 242, 244, 246, 248, 250} {
			wn := wn
			add(func(lc *local) {
				for q := 0; q < 65536; q++ {
					eval(Case{FC: 23, RTU: rtu, Unit: 10, TID: 0x0A0B, Addr: 3, Qty: uint16(q), WAddr: 14, N: wn, Pattern: "pos"}, res, lc)
				}
			})
		}
		add(func(lc *local) {
			for n := 0; n <= 300; n++ {
				for _, q := range []uint16{0, 1, 2, 124, 125, 126, 65535} {
					for _, a := range []uint16{0, 3, 65535} {
						for _, wa := range []uint16{0, 14, 255, 256, 65535} {
							eval(Case{FC: 23, RTU: rtu, Unit: 10, TID: 0x0A0B, Addr: a, Qty: q, WAddr: wa, N: n, Pattern: "pos"}, res, lc)
						}
					}
				}
			}
			for n := 131070; n <= 131080; n++ {
				eval(Case{FC: 23, RTU: rtu, Unit: 10, TID: 1, Addr: 1, Qty: 1, WAddr: 2, N: n, Pattern: "pos"}, res, lc)
			}
			for _, u := range allUnits {
				for _, a := range lib.B16 {
					eval(Case{FC: 23, RTU: rtu, Unit: u, TID: a, Addr: a, Qty: 6, WAddr: a ^ 0xFFFF, N: 6, Pattern: "pos"}, res, lc)
				}
			}
		})
	}
	var mu sync.Mutex
	var tot local
	ev.Par(len(jobs), runtime.NumCPU(), func(i int) {
		var lc local
		jobs[i](&lc)
		mu.Lock()
		tot.evals += lc.evals
		tot.accepted += lc.accepted
		mu.Unlock()
	})
	res.Add("evaluations", tot.evals)
	res.Add("accepted", tot.accepted)
	res.DistinctAdd("nontrivial", tot.accepted)
	res.Axis("function code x framing", "full", 20)
	res.Axis("quantity (FC1-4, FC23 read)", "full", 65536)
	res.Axis("coil count (FC15)", "full 0..2100 + wrap values", 2107)
	res.Axis("payload byte length (FC16, FC23 write)", "full 0..300 + uint16-wrap lengths", 315)
	res.Axis("unit id", "full (at boundary arguments)", 256)
	res.Axis("address / transaction id", "boundary (B16); tid full for FC3", int64(len(lib.B16)))
	res.Sample(Case{FC: 3, Unit: 1, TID: 0x8180, Addr: 0x6B, Qty: 3})
	res.Sample(Case{FC: 15, RTU: true, Unit: 7, Addr: 0x13, N: 10, Pattern: "onehot", K: 9})
	res.Sample(Case{FC: 23, Unit: 10, Addr: 3, Qty: 6, WAddr: 14, N: 6, Pattern: "pos"})
}

func replay(check string, raw json.RawMessage, res *ev.Result) {
	var c Case
	json.Unmarshal(raw, &c)
	var lc local
	eval(c, res, &lc)
}

func main() {
	ev.Main(ev.Spec{
		Property: prop, Level: "exploration",
		Rule: "constructor arguments enumerated over the declared product (full quantity/count/length axes crossed with boundary alphabets); every accepted construction is " +
			"compared byte for byte with the independent spec encoder and checked for legality and ADU size. non-trivial = accepted constructions (pairwise distinct arguments by construction)",
		Assumptions: []string{"payload data bytes are abstracted to position-distinguishing / one-hot / one-cold / constant patterns (the encoders only copy them)",
			"the random transaction id is overwritten through the exported field; nothing is demanded of the random value"},
		Run: run, Replay: replay,
		Vacuity: func(tier string, res *ev.Result) string {
			if res.Counters["accepted"] < 1000 {
				return "fewer than 1000 accepted constructions"
			}
			return ""
		},
	})
}
