// C13 — reading values out of a response never changes it.
// Explicit-state search: state = (payload bytes, response fields, Registers view fields); transitions = read operations.
// Invariant: the only reachable state is the initial one; every operation in every history gives the result it gives
// on a pristine copy.
package main

import (
	"encoding/hex"
	"encoding/json"
	"errors"
	"fmt"
	"runtime"
	"strings"
	"sync"

	modbus "github.com/aldas/go-modbus-client"
	"github.com/aldas/go-modbus-client/packet"
	"verif/ev"
	"verif/spec"
)

const prop = "C13"

// obj is the live object graph a history operates on.
type obj struct {
	start   uint16
	payload []byte
	resp    *packet.ReadHoldingRegistersResponseTCP
	regs    *packet.Registers
	br      modbus.BuilderRequest
	coil    *packet.ReadCoilsResponseTCP // shares nothing with resp; has its own payload copy
	coilPay []byte
	coilBR  modbus.BuilderRequest // coil fields incl. adjacent duplicates
	mixedBR modbus.BuilderRequest // a hand-assembled request listing register AND coil fields, two of them failing
}

func build(payload []byte, start uint16) *obj {
	p := append([]byte(nil), payload...)
	o := &obj{start: start, payload: p}
	o.resp = &packet.ReadHoldingRegistersResponseTCP{MBAPHeader: packet.MBAPHeader{TransactionID: 7}, ReadHoldingRegistersResponse: packet.ReadHoldingRegistersResponse{UnitID: 1, RegisterByteLen: uint8(len(p)), Data: p}}
	o.regs, _ = o.resp.AsRegisters(start)
	n := len(p) / 2
	fs := modbus.Fields{
		{Name: "u16", ServerAddress: "s", UnitID: 1, Address: start, Type: modbus.FieldTypeUint16},
		{Name: "str", ServerAddress: "s", UnitID: 1, Address: start, Type: modbus.FieldTypeString, Length: uint8(2*n - 1)},
		{Name: "str-le", ServerAddress: "s", UnitID: 1, Address: start, Type: modbus.FieldTypeString, Length: uint8(2 * n), ByteOrder: packet.LittleEndian},
		{Name: "bit", ServerAddress: "s", UnitID: 1, Address: start + uint16(n-1), Type: modbus.FieldTypeBit, Bit: 9},
		{Name: "u16-dup", ServerAddress: "s", UnitID: 1, Address: start, Type: modbus.FieldTypeUint16},
		{Name: "byte", ServerAddress: "s", UnitID: 1, Address: start, Type: modbus.FieldTypeByte, FromHighByte: true},
	}
	if n >= 2 {
		fs = append(fs, modbus.Field{Name: "u32", ServerAddress: "s", UnitID: 1, Address: start, Type: modbus.FieldTypeUint32, ByteOrder: packet.BigEndianLowWordFirst},
			modbus.Field{Name: "f32", ServerAddress: "s", UnitID: 1, Address: start + uint16(n-2), Type: modbus.FieldTypeFloat32, ByteOrder: packet.LittleEndianLowWordFirst})
	}
	if n >= 4 {
		fs = append(fs, modbus.Field{Name: "i64", ServerAddress: "s", UnitID: 1, Address: start, Type: modbus.FieldTypeInt64, ByteOrder: packet.BigEndianLowWordFirst})
	}
	fs = append(fs, modbus.Field{Name: "beyond", ServerAddress: "s", UnitID: 1, Address: start + uint16(n), Type: modbus.FieldTypeUint16}) // fails: exercises the lenient path
	o.br = modbus.BuilderRequest{ServerAddress: "s", UnitID: 1, StartAddress: start, Fields: fs}
	o.coilPay = append([]byte(nil), payload...)
	o.coil = &packet.ReadCoilsResponseTCP{ReadCoilsResponse: packet.ReadCoilsResponse{UnitID: 1, CoilsByteLength: uint8(len(p)), Data: o.coilPay}}
	cf := func(name string, off uint16) modbus.Field {
		return modbus.Field{Name: name, ServerAddress: "s", UnitID: 1, Address: start + off, Type: modbus.FieldTypeCoil}
	}
	o.coilBR = modbus.BuilderRequest{ServerAddress: "s", UnitID: 1, StartAddress: start,
		Fields: modbus.Fields{cf("c0", 0), cf("c0", 0), cf("c3", 3), cf("c5", 5), cf("c5", 5), cf("c7", 7)}}
	o.mixedBR = modbus.BuilderRequest{ServerAddress: "s", UnitID: 1, StartAddress: start, Fields: modbus.Fields{
		cf("m-c1", 1),
		{Name: "m-u16", ServerAddress: "s", UnitID: 1, Address: start, Type: modbus.FieldTypeUint16},
		{Name: "m-beyond-a", ServerAddress: "s", UnitID: 1, Address: start + uint16(n), Type: modbus.FieldTypeUint16},
		cf("m-c4", 4),
		{Name: "m-beyond-b", ServerAddress: "s", UnitID: 1, Address: start + uint16(n) + 1, Type: modbus.FieldTypeInt16},
		{Name: "m-byte", ServerAddress: "s", UnitID: 1, Address: start, Type: modbus.FieldTypeByte},
	}}
	return o
}

// key is the canonical state: the payload bytes and every exported field of the response and of the request's field
// list. Unexported fields of the Registers view are deliberately NOT part of it (a memoising view that always returns the
// same answers does not violate the property); whether a read changed what later reads return is decided by the
// history comparison instead.
func (o *obj) key() string {
	return hex.EncodeToString(o.payload) + "|" + hex.EncodeToString(o.resp.Data) + "|" + fmt.Sprintf("%d %d %d", o.resp.UnitID, o.resp.RegisterByteLen, o.resp.TransactionID) +
		"|" + hex.EncodeToString(o.coilPay) + "|" + hex.EncodeToString(o.coil.Data) + "|" + fmt.Sprintf("%+v", o.br.Fields) + "|" + fmt.Sprintf("%+v", o.coilBR.Fields) + "|" + fmt.Sprintf("%+v", o.mixedBR.Fields)
}

type op struct {
	name string
	f    func(o *obj) string
}

func r2(v any, err error) string {
	if fv, ok := v.([]modbus.FieldValue); ok { // deterministic rendering (error values would print as pointers)
		out := ""
		for _, x := range fv {
			out += fmt.Sprintf("{%s=%#v err=%v}", x.Field.Name, x.Value, x.Error)
		}
		return out + fmt.Sprintf("|%v", err)
	}
	return fmt.Sprintf("%#v|%v", v, err)
}

func ops(n int) []op {
	var out []op
	add := func(name string, f func(o *obj) string) { out = append(out, op{name, f}) }
	addrs := map[string]int{"first": 0, "second": 1, "last": n - 1}
	orders := []packet.ByteOrder{0, packet.BigEndian, packet.LittleEndian, packet.BigEndianLowWordFirst, packet.LittleEndianLowWordFirst, packet.BigEndianHighWordFirst, packet.LittleEndianHighWordFirst}
	for an, off := range addrs {
		if off < 0 || off >= n || (an == "second" && n < 3) {
			continue
		}
		off := uint16(off)
		add("Register@"+an, func(o *obj) string { return r2(o.regs.Register(o.start + off)) })
		add("Bit9@"+an, func(o *obj) string { return r2(o.regs.Bit(o.start+off, 9)) })
		add("Uint8hi@"+an, func(o *obj) string { return r2(o.regs.Uint8(o.start+off, true)) })
		add("Int8lo@"+an, func(o *obj) string { return r2(o.regs.Int8(o.start+off, false)) })
		add("Uint16@"+an, func(o *obj) string { return r2(o.regs.Uint16(o.start + off)) })
		add("Int16@"+an, func(o *obj) string { return r2(o.regs.Int16(o.start + off)) })
		for _, ord := range orders {
			ord := ord
			if an == "second" && ord != 0 && ord != packet.BigEndianLowWordFirst {
				continue
			}
			add(fmt.Sprintf("Uint32WithByteOrder(%d)@%s", ord, an), func(o *obj) string { return r2(o.regs.Uint32WithByteOrder(o.start+off, ord)) })
			add(fmt.Sprintf("Float64WithByteOrder(%d)@%s", ord, an), func(o *obj) string { return r2(o.regs.Float64WithByteOrder(o.start+off, ord)) })
			add(fmt.Sprintf("DoubleRegister(%d)@%s", ord, an), func(o *obj) string { return r2(o.regs.DoubleRegister(o.start+off, ord)) })
			add(fmt.Sprintf("QuadRegister(%d)@%s", ord, an), func(o *obj) string { return r2(o.regs.QuadRegister(o.start+off, ord)) })
			for _, l := range []uint8{1, 2, 3, 4, uint8(2*n - 1)} {
				l := l
				if an != "first" && l > 2 {
					continue
				}
				add(fmt.Sprintf("StringWithByteOrder(len %d, %d)@%s", l, ord, an), func(o *obj) string { return r2(o.regs.StringWithByteOrder(o.start+off, l, ord)) })
			}
		}
		add("Int32@"+an, func(o *obj) string { return r2(o.regs.Int32(o.start + off)) })
		add("Uint64@"+an, func(o *obj) string { return r2(o.regs.Uint64(o.start + off)) })
		add("Float32@"+an, func(o *obj) string { return r2(o.regs.Float32(o.start + off)) })
		add("String(len 2)@"+an, func(o *obj) string { return r2(o.regs.String(o.start+off, 2)) })
	}
	// reads that must FAIL (the register after the last one received), once and again: an answer must not appear because
	// something was read before
	beyond := func(o *obj) (uint16, bool) {
		if int(o.start)+n > 65535 {
			return 0, false
		}
		return o.start + uint16(n), true
	}
	addB := func(name string, f func(o *obj, a uint16) string) {
		add(name+"@beyond", func(o *obj) string {
			a, ok := beyond(o)
			if !ok {
				return "n/a"
			}
			return f(o, a)
		})
	}
	addB("Bit9", func(o *obj, a uint16) string { return r2(o.regs.Bit(a, 9)) })
	addB("Bit3", func(o *obj, a uint16) string { return r2(o.regs.Bit(a, 3)) })
	addB("Uint16", func(o *obj, a uint16) string { return r2(o.regs.Uint16(a)) })
	addB("Register", func(o *obj, a uint16) string { return r2(o.regs.Register(a)) })
	addB("Uint8hi", func(o *obj, a uint16) string { return r2(o.regs.Uint8(a, true)) })
	addB("String(len 2)", func(o *obj, a uint16) string { return r2(o.regs.String(a, 2)) })
	// a view whose default order is switched, read, and switched back: the answer must not depend on what was read
	// before the switch (the default NewRegisters documents is big endian, high word first)
	for _, ord := range []packet.ByteOrder{packet.LittleEndian, packet.BigEndianLowWordFirst, packet.LittleEndianHighWordFirst} {
		ord := ord
		with := func(o *obj, f func() string) string {
			o.regs.WithByteOrder(ord)
			defer o.regs.WithByteOrder(packet.BigEndianHighWordFirst)
			return f()
		}
		add(fmt.Sprintf("WithByteOrder(%d){Uint16@first}", ord), func(o *obj) string {
			return with(o, func() string { return r2(o.regs.Uint16(o.start)) })
		})
		add(fmt.Sprintf("WithByteOrder(%d){Int16@last}", ord), func(o *obj) string {
			return with(o, func() string { return r2(o.regs.Int16(o.start + uint16(n-1))) })
		})
		add(fmt.Sprintf("WithByteOrder(%d){Bit9@first}", ord), func(o *obj) string {
			return with(o, func() string { return r2(o.regs.Bit(o.start, 9)) })
		})
		add(fmt.Sprintf("WithByteOrder(%d){Uint8hi@last}", ord), func(o *obj) string {
			return with(o, func() string { return r2(o.regs.Uint8(o.start+uint16(n-1), true)) })
		})
		add(fmt.Sprintf("WithByteOrder(%d){Uint32@first}", ord), func(o *obj) string {
			return with(o, func() string { return r2(o.regs.Uint32(o.start)) })
		})
		add(fmt.Sprintf("WithByteOrder(%d){String2@first}", ord), func(o *obj) string {
			return with(o, func() string { return r2(o.regs.String(o.start, 2)) })
		})
	}
	add("ExtractFields(coils,strict)", func(o *obj) string { return r2(o.coilBR.ExtractFields(o.coil, false)) })
	add("ExtractFields(coils,lenient)", func(o *obj) string { return r2(o.coilBR.ExtractFields(o.coil, true)) })
	add("AsRegisters+Uint16", func(o *obj) string {
		r, err := o.resp.AsRegisters(o.start)
		if err != nil {
			return err.Error()
		}
		return r2(r.Uint16(o.start))
	})
	add("ExtractFields(mixed,registers,lenient)", func(o *obj) string { return r2(o.mixedBR.ExtractFields(o.resp, true)) })
	add("ExtractFields(mixed,registers,strict)", func(o *obj) string { return r2(o.mixedBR.ExtractFields(o.resp, false)) })
	add("ExtractFields(mixed,coils,lenient)", func(o *obj) string { return r2(o.mixedBR.ExtractFields(o.coil, true)) })
	add("ExtractFields(strict)", func(o *obj) string { return r2(o.br.ExtractFields(o.resp, false)) })
	add("ExtractFields(lenient)", func(o *obj) string { return r2(o.br.ExtractFields(o.resp, true)) })
	add("resp.Bytes", func(o *obj) string { return hex.EncodeToString(o.resp.Bytes()) })
	add("IsCoilSet(3)", func(o *obj) string { return r2(o.coil.IsCoilSet(o.start, o.start+3)) })
	add("IsCoilSet(last)", func(o *obj) string { return r2(o.coil.IsCoilSet(o.start, o.start+uint16(8*len(o.coilPay)-1))) })
	add("coil.Bytes", func(o *obj) string { return hex.EncodeToString(o.coil.Bytes()) })
	return out
}

func apply(p op, o *obj) (s string) {
	defer func() {
		if rec := recover(); rec != nil {
			s = fmt.Sprintf("PANIC %v", rec)
		}
	}()
	return p.f(o)
}

type Case struct {
	Payload string   `json:"payload_hex"`
	Start   uint16   `json:"start"`
	History []string `json:"history"` // operation names, applied in order to one object
}

type local struct{ states, transitions, histories, ops int64 }

func payloads() [][]byte {
	var out [][]byte
	for _, n := range []int{1, 2, 3, 4, 5, 6, 33, 40, 125} {
		pos := make([]byte, 2*n)
		txt := make([]byte, 2*n)
		inc := make([]byte, 2*n)
		ones := make([]byte, 2*n)
		for i := range pos {
			pos[i] = byte(i*29 + 0x41)
			txt[i] = byte('A' + i%26)
			inc[i] = byte(i + 1)
			ones[i] = 0xFF
		}
		if n >= 2 {
			txt[3] = 0 // NUL inside
		}
		if n > 6 {
			out = append(out, pos, txt) // long windows: two patterns (they exist for the long-string / many-field paths)
			continue
		}
		out = append(out, pos, txt, inc, ones)
	}
	return out
}

// explore runs the BFS over states and the history comparison for one initial payload.
func explore(payload []byte, start uint16, depth int, opFilter func(i int) bool, res *ev.Result, lc *local) {
	n := len(payload) / 2
	all := ops(n)
	var os []op
	for i, p := range all {
		if opFilter == nil || opFilter(i) {
			os = append(os, p)
		}
	}
	pristine := make([]string, len(os)) // result of each op on a pristine object
	for i, p := range os {
		pristine[i] = apply(p, build(payload, start))
	}
	init := build(payload, start).key()
	seen := map[string]bool{init: true}
	lc.states++
	// BFS over the state graph: a state is identified by its key; successors are computed by replaying the shortest
	// history on a fresh object (live objects do not copy).
	type node struct{ hist []int }
	frontier := []node{{}}
	for len(frontier) > 0 {
		nd := frontier[0]
		frontier = frontier[1:]
		for i, p := range os {
			o := build(payload, start)
			for _, h := range nd.hist {
				apply(os[h], o)
			}
			apply(p, o)
			lc.transitions++
			k := o.key()
			if !seen[k] {
				seen[k] = true
				lc.states++
				hist := append(append([]int(nil), nd.hist...), i)
				names := make([]string, len(hist))
				for j, h := range hist {
					names[j] = os[h].name
				}
				res.Violate(ev.Violation{Check: "purity", Kind: "state-changed", Attrs: map[string]any{"op": opClass(p.name)},
					Msg:  fmt.Sprintf("payload %x start %d: after %v the response state differs from the initial state: %s", payload, start, names, k),
					Case: Case{Payload: hex.EncodeToString(payload), Start: start, History: names}})
				if len(hist) < 2 {
					frontier = append(frontier, node{hist})
				}
			}
		}
	}
	// histories: every sequence up to `depth`, each op's result compared with its pristine result
	var rec func(o *obj, hist []int)
	idx := make([]int, 0, depth)
	rec = func(o *obj, hist []int) {}
	_ = rec
	var walk func(prefix []int)
	walk = func(prefix []int) {
		if len(prefix) == depth {
			o := build(payload, start)
			lc.histories++
			for pos, h := range prefix {
				got := apply(os[h], o)
				lc.ops++
				if got != pristine[h] {
					names := make([]string, pos+1)
					for j := 0; j <= pos; j++ {
						names[j] = os[prefix[j]].name
					}
					culprit := "?"
					if pos > 0 {
						culprit = opClass(os[prefix[pos-1]].name)
					}
					res.Violate(ev.Violation{Check: "purity", Kind: "result-depends-on-history", Attrs: map[string]any{"victim": opClass(os[h].name), "after": culprit},
						Msg:  fmt.Sprintf("payload %x start %d: %s after %v returns %s, on a pristine response it returns %s", payload, start, os[h].name, names[:pos], got, pristine[h]),
						Case: Case{Payload: hex.EncodeToString(payload), Start: start, History: names}})
					break
				}
			}
			return
		}
		for i := range os {
			walk(append(prefix, i))
		}
	}
	_ = idx
	for d := 1; d <= depth; d++ {
		dd := depth
		depth = d
		walk(nil)
		depth = dd
	}
}

// fieldOrder: "performing the reads in a different order yields the same results" for field extraction - every field
// of every ordered pair / triple of field definitions over one response must come out exactly as it does when it is
// extracted alone from a pristine response (so neither an earlier field nor the order of the list can matter).
func fieldOrder(thorough bool, res *ev.Result) (lists, fieldsChecked int64) {
	type fd struct {
		name string
		f    modbus.Field
	}
	orders := []packet.ByteOrder{0, packet.BigEndianLowWordFirst, packet.LittleEndian, packet.LittleEndianLowWordFirst, packet.BigEndianHighWordFirst}
	for _, n := range []int{4, 40} {
		payload := make([]byte, 2*n)
		for i := range payload {
			payload[i] = byte(i*37 + 0x41)
		}
		const start = 200
		var alpha []fd
		add := func(name string, f modbus.Field) {
			f.Name, f.ServerAddress, f.UnitID = name, "s", 1
			alpha = append(alpha, fd{name, f})
		}
		for _, off := range []uint16{0, 1} {
			add(fmt.Sprintf("u16@%d", off), modbus.Field{Address: start + off, Type: modbus.FieldTypeUint16})
			add(fmt.Sprintf("i16@%d", off), modbus.Field{Address: start + off, Type: modbus.FieldTypeInt16})
			add(fmt.Sprintf("bit@%d", off), modbus.Field{Address: start + off, Type: modbus.FieldTypeBit, Bit: 11})
			add(fmt.Sprintf("byte@%d", off), modbus.Field{Address: start + off, Type: modbus.FieldTypeByte, FromHighByte: off == 0})
			for _, o := range orders {
				add(fmt.Sprintf("u32/%d@%d", o, off), modbus.Field{Address: start + off, Type: modbus.FieldTypeUint32, ByteOrder: o})
				add(fmt.Sprintf("f32/%d@%d", o, off), modbus.Field{Address: start + off, Type: modbus.FieldTypeFloat32, ByteOrder: o})
				if off == 0 {
					add(fmt.Sprintf("u64/%d@%d", o, off), modbus.Field{Address: start + off, Type: modbus.FieldTypeUint64, ByteOrder: o})
					add(fmt.Sprintf("str4/%d@%d", o, off), modbus.Field{Address: start + off, Type: modbus.FieldTypeString, Length: 4, ByteOrder: o})
					if n >= 40 {
						add(fmt.Sprintf("str70/%d@%d", o, off), modbus.Field{Address: start + off, Type: modbus.FieldTypeString, Length: 70, ByteOrder: o})
					}
				}
			}
		}
		// fields that FAIL (past the window) and 16-bit fields that name a byte order: neither may change what the fields
		// listed after (or before) them give
		add("u16@beyond", modbus.Field{Address: start + uint16(n), Type: modbus.FieldTypeUint16})
		add("u32@last", modbus.Field{Address: start + uint16(n-1), Type: modbus.FieldTypeUint32})
		add("u16/LE@beyond", modbus.Field{Address: start + uint16(n), Type: modbus.FieldTypeUint16, ByteOrder: packet.LittleEndian})
		for _, o := range []packet.ByteOrder{packet.LittleEndian, packet.BigEndianLowWordFirst, packet.LittleEndianLowWordFirst} {
			add(fmt.Sprintf("u16/%d@0", o), modbus.Field{Address: start, Type: modbus.FieldTypeUint16, ByteOrder: o})
			add(fmt.Sprintf("i16/%d@1", o), modbus.Field{Address: start + 1, Type: modbus.FieldTypeInt16, ByteOrder: o})
		}
		mkResp := func() *packet.ReadHoldingRegistersResponseTCP {
			p := append([]byte(nil), payload...)
			return &packet.ReadHoldingRegistersResponseTCP{ReadHoldingRegistersResponse: packet.ReadHoldingRegistersResponse{UnitID: 1, RegisterByteLen: uint8(len(p)), Data: p}}
		}
		render := func(v modbus.FieldValue) string { return fmt.Sprintf("%#v err=%v", v.Value, v.Error) }
		solo := map[string]string{}
		for _, a := range alpha {
			br := modbus.BuilderRequest{ServerAddress: "s", UnitID: 1, StartAddress: start, Fields: modbus.Fields{a.f}}
			vs, err := br.ExtractFields(mkResp(), true)
			if (err != nil && !errors.Is(err, modbus.ErrorFieldExtractHadError)) || len(vs) != 1 {
				solo[a.name] = fmt.Sprintf("ERR %v", err)
				continue
			}
			solo[a.name] = render(vs[0])
		}
		check := func(list []fd) {
			lists++
			fs := make(modbus.Fields, len(list))
			names := make([]string, len(list))
			for i, a := range list {
				fs[i] = a.f
				names[i] = a.name
			}
			br := modbus.BuilderRequest{ServerAddress: "s", UnitID: 1, StartAddress: start, Fields: fs}
			resp := mkResp()
			vs, err := br.ExtractFields(resp, true)
			if (err != nil && !errors.Is(err, modbus.ErrorFieldExtractHadError)) || len(vs) != len(list) {
				return
			}
			for i, v := range vs {
				fieldsChecked++
				if got := render(v); got != solo[v.Field.Name] {
					res.Violate(ev.Violation{Check: "purity", Kind: "field-value-depends-on-other-fields", Attrs: map[string]any{"victim_default_order": v.Field.ByteOrder == 0},
						Msg:  fmt.Sprintf("window of %d registers, fields %v extracted together: field %s (position %d) = %s, extracted alone = %s", n, names, v.Field.Name, i, got, solo[v.Field.Name]),
						Case: Case{Payload: hex.EncodeToString(payload), Start: start, History: names}})
					return
				}
			}
			if !bytesEq(resp.Data, payload) {
				res.Violate(ev.Violation{Check: "purity", Kind: "state-changed", Attrs: map[string]any{"op": "ExtractFields"},
					Msg:  fmt.Sprintf("window of %d registers: extracting fields %v changed the payload to %x", n, names, resp.Data),
					Case: Case{Payload: hex.EncodeToString(payload), Start: start, History: names}})
			}
		}
		for _, a := range alpha {
			for _, b := range alpha {
				check([]fd{a, b})
				if thorough || (a.f.ByteOrder != 0) != (b.f.ByteOrder != 0) {
					for k, c := range alpha {
						if !thorough && k%4 != 0 {
							continue
						}
						check([]fd{a, b, c})
					}
				}
			}
		}
	}
	return
}

func bytesEq(a, b []byte) bool { return string(a) == string(b) }

func opClass(name string) string {
	for i := 0; i < len(name); i++ {
		if name[i] == '(' || name[i] == '@' {
			return name[:i]
		}
	}
	return name
}

func run(tier string, shard, nsh int, res *ev.Result) {
	if err := spec.SelfCheck(); err != nil {
		panic(err)
	}
	thorough := tier == "thorough"
	if shard == 0 {
		stringOrderProbe(res) // first thing in the process: see there
	}
	ps := payloads()
	var mu sync.Mutex
	var tot local
	var nops int
	ev.Par(len(ps), runtime.NumCPU(), func(i int) {
		var lc local
		p := ps[i]
		n := len(p) / 2
		all := len(ops(n))
		mu.Lock()
		if all > nops {
			nops = all
		}
		mu.Unlock()
		for _, start := range []uint16{0, 100, uint16(65536 - n)} {
			// depth 2 over the whole alphabet, depth 3 over a reduced alphabet (every 3rd op + all string / extract ops)
			explore(p, start, 2, nil, res, &lc)
			if start == 100 || thorough {
				names := ops(n)
				explore(p, start, 3, func(i int) bool {
					c := opClass(names[i].name)
					return i%5 == 0 || c == "StringWithByteOrder" && i%2 == 0 || c == "ExtractFields" || c == "String"
				}, res, &lc)
			}
			if thorough && n <= 3 {
				names := ops(n)
				explore(p, start, 4, func(i int) bool {
					c := opClass(names[i].name)
					return i%11 == 0 || c == "ExtractFields" || c == "String" || (c == "StringWithByteOrder" && i%7 == 0)
				}, res, &lc)
			}
		}
		mu.Lock()
		tot.states += lc.states
		tot.transitions += lc.transitions
		tot.histories += lc.histories
		tot.ops += lc.ops
		mu.Unlock()
	})
	if shard == 0 {
		tot.ops += defaultSwitchHistories(res)
	}
	nl, nf := fieldOrder(thorough, res)
	res.Add("field_lists", nl)
	res.Add("field_values_compared", nf)
	tot.ops += nf
	res.Axis("field lists for order independence", "ordered pairs (and triples) over ~50 field definitions x windows of 4 and 40 registers; each value compared with its solo extraction", nl)
	res.Add("states", tot.states)
	res.Add("transitions", tot.transitions)
	res.Add("histories", tot.histories)
	res.Add("evaluations", tot.ops+tot.transitions)
	res.Add("initial_states", int64(len(ps)*3))
	res.DistinctAdd("nontrivial", tot.histories)
	res.Axis("initial payload", "1..6 registers x 4 patterns x 3 start addresses", int64(len(ps)*3))
	res.Axis("read operation alphabet", "accessors at first/second/last address x 7 orders x string lengths, AsRegisters, ExtractFields strict/lenient, Bytes, IsCoilSet", int64(nops))
	res.Axis("history length", map[bool]string{true: "<=2 full alphabet, 3 reduced alphabet, 4 small alphabet (n<=3)", false: "<=2 full alphabet, 3 reduced alphabet (one start)"}[thorough], 4)
	res.Sample(Case{Payload: "414243444546", Start: 100, History: []string{"StringWithByteOrder(len 3, 0)@first", "Uint16@first"}})
	res.Sample(Case{Payload: "0102", Start: 0, History: []string{"ExtractFields(lenient)", "ExtractFields(strict)"}})
}

func replay(check string, raw json.RawMessage, res *ev.Result) {
	var c Case
	json.Unmarshal(raw, &c)
	if len(c.History) > 0 && c.History[0] == "default-switch-histories" {
		defaultSwitchHistories(res)
		return
	}
	if len(c.History) > 0 && c.History[0] == "string-order-probe" {
		stringOrderProbe(res) // must be the first thing in the process, as it is here
		return
	}
	if len(c.History) > 0 && strings.Contains(c.History[0], "@") && strings.Contains(c.History[0], "/") || (len(c.History) > 0 && c.Start == 200) {
		fieldOrder(true, res) // the field-order cases are cheap: re-run them all
		return
	}
	p, _ := hex.DecodeString(c.Payload)
	all := ops(len(p) / 2)
	byName := map[string]op{}
	for _, o := range all {
		byName[o.name] = o
	}
	o := build(p, c.Start)
	init := o.key()
	for i, name := range c.History {
		want := apply(byName[name], build(p, c.Start))
		got := apply(byName[name], o)
		if got != want {
			res.Violate(ev.Violation{Check: "purity", Kind: "result-depends-on-history", Attrs: map[string]any{}, Msg: fmt.Sprintf("step %d %s: %s, pristine %s", i, name, got, want), Case: c})
		}
	}
	if o.key() != init {
		res.Violate(ev.Violation{Check: "purity", Kind: "state-changed", Attrs: map[string]any{}, Msg: "state after history: " + o.key() + " initial: " + init, Case: c})
	}
}

func main() {
	ev.Main(ev.Spec{
		Property: prop, Level: "model_checking",
		Rule: "explicit-state BFS: states keyed by payload bytes + response fields + Registers view fields; transitions = read operations applied to the real objects; " +
			"invariant: one state per initial payload; every operation of every history <= bound returns its pristine result",
		Assumptions: []string{"state of a response is its payload bytes, its exported fields and the unexported fields of the Registers view (printed with %+v)",
			"operation alphabet samples addresses first/second/last of the window"},
		Run: run, Replay: replay,
		Finish: func(tier string, res *ev.Result, cov map[string]any) {
			cov["states"] = res.Counters["states"]
			cov["transitions"] = res.Counters["transitions"]
			cov["traces_validated_against_impl"] = res.Counters["histories"]
			cov["expected_states_if_property_holds"] = res.Counters["initial_states"]
		},
	})
}

// stringOrderProbe runs before anything else in the process has decoded a string: for every ordered pair of string
// lengths 1..8 (both byte orders) the two reads are made, in that order, on a response whose bytes no other part of the
// check uses, and both results are compared with the reference decoding. What the second read returns must not depend
// on the first - also not through state that outlives the response (a process-wide cache, possibly one that stops
// admitting entries after a while, which is why this comes first).
func stringOrderProbe(res *ev.Result) {
	k := 0
	for _, ord := range []packet.ByteOrder{packet.BigEndian, packet.LittleEndian} {
		so := uint8(spec.OrdBE)
		if ord == packet.LittleEndian {
			so = spec.OrdLE
		}
		for l1 := 1; l1 <= 8; l1++ {
			for l2 := 1; l2 <= 8; l2++ {
				k++
				pay := make([]byte, 8)
				for i := range pay {
					pay[i] = byte(0x80 + (k*7+i*31)%0x7F) // no NUL, unlike any other payload of this check, different for every pair
				}
				o := build(pay, 100)
				for step, l := range []int{l1, l2} {
					got, err := o.regs.StringWithByteOrder(100, uint8(l), ord)
					want := spec.Str(pay[:2*spec.StrRegs(l)], l, so)
					if err != nil || got != want {
						res.Violate(ev.Violation{Check: "purity", Kind: "result-depends-on-history", Attrs: map[string]any{"victim": "StringWithByteOrder", "after": "StringWithByteOrder", "probe": true},
							Msg:  fmt.Sprintf("payload %x: reads String(len %d) then String(len %d) with order %d: read %d returned (%q, %v), the registers decode to %q", pay, l1, l2, ord, step+1, got, err, want),
							Case: Case{Payload: hex.EncodeToString(pay), Start: 100, History: []string{"string-order-probe", fmt.Sprintf("String(len %d, order %d)", l1, ord), fmt.Sprintf("String(len %d, order %d)", l2, ord)}}})
						break
					}
				}
			}
		}
	}
}

// defaultSwitchHistories: a view whose default order the CALLER has changed (and not changed back). For every setting S,
// every operation B and every read C: C after [S, B] must return what C returns after [S] alone - B (a read, a field
// extraction that names its own order, a failing extraction) must leave the caller's setting as it found it.
func defaultSwitchHistories(res *ev.Result) (n int64) {
	payload := make([]byte, 12)
	for i := range payload {
		payload[i] = byte(i*29 + 0x41)
	}
	const start = 300
	type opf struct {
		name string
		f    func(r *packet.Registers) string
	}
	fld := func(name string, f modbus.Field) opf {
		f.Name, f.ServerAddress, f.UnitID = name, "s", 1
		return opf{"ExtractFrom(" + name + ")", func(r *packet.Registers) string { return r2(f.ExtractFrom(r)) }}
	}
	bs := []opf{
		fld("u16/LE@0", modbus.Field{Address: start, Type: modbus.FieldTypeUint16, ByteOrder: packet.LittleEndian}),
		fld("i16/BE-low@1", modbus.Field{Address: start + 1, Type: modbus.FieldTypeInt16, ByteOrder: packet.BigEndianLowWordFirst}),
		fld("u16/LE@beyond", modbus.Field{Address: start + 6, Type: modbus.FieldTypeUint16, ByteOrder: packet.LittleEndian}),
		fld("u16@beyond", modbus.Field{Address: start + 6, Type: modbus.FieldTypeUint16}),
		fld("u32/LE-low@0", modbus.Field{Address: start, Type: modbus.FieldTypeUint32, ByteOrder: packet.LittleEndianLowWordFirst}),
		fld("u32@0", modbus.Field{Address: start, Type: modbus.FieldTypeUint32}),
		fld("str5/LE@0", modbus.Field{Address: start, Type: modbus.FieldTypeString, Length: 5, ByteOrder: packet.LittleEndian}),
		fld("bit@0", modbus.Field{Address: start, Type: modbus.FieldTypeBit, Bit: 3}),
		fld("u64@last", modbus.Field{Address: start + 5, Type: modbus.FieldTypeUint64}),
		{"Uint32WithByteOrder(LE)@0", func(r *packet.Registers) string { return r2(r.Uint32WithByteOrder(start, packet.LittleEndian)) }},
		{"Uint16@beyond", func(r *packet.Registers) string { return r2(r.Uint16(start + 6)) }},
		{"StringWithByteOrder(BE,3)@0", func(r *packet.Registers) string { return r2(r.StringWithByteOrder(start, 3, packet.BigEndian)) }},
	}
	cs := []opf{
		{"Uint16@0", func(r *packet.Registers) string { return r2(r.Uint16(start)) }},
		{"Int16@5", func(r *packet.Registers) string { return r2(r.Int16(start + 5)) }},
		{"Uint32@0", func(r *packet.Registers) string { return r2(r.Uint32(start)) }},
		{"Float32@2", func(r *packet.Registers) string { return r2(r.Float32(start + 2)) }},
		{"Uint64@1", func(r *packet.Registers) string { return r2(r.Uint64(start + 1)) }},
		{"String(4)@0", func(r *packet.Registers) string { return r2(r.String(start, 4)) }},
		{"Uint32WithByteOrder(0)@0", func(r *packet.Registers) string { return r2(r.Uint32WithByteOrder(start, 0)) }},
		{"Uint8hi@0", func(r *packet.Registers) string { return r2(r.Uint8(start, true)) }},
	}
	safe := func(f func(r *packet.Registers) string, r *packet.Registers) (out string) {
		defer func() {
			if rec := recover(); rec != nil {
				out = fmt.Sprintf("PANIC %v", rec)
			}
		}()
		return f(r)
	}
	for _, set := range []packet.ByteOrder{0, packet.LittleEndian, packet.BigEndianLowWordFirst, packet.LittleEndianLowWordFirst, packet.LittleEndianHighWordFirst} {
		mk := func() *packet.Registers {
			r, err := packet.NewRegisters(append([]byte(nil), payload...), start)
			if err != nil {
				panic(err)
			}
			if set != 0 {
				r.WithByteOrder(set)
			}
			return r
		}
		for _, b := range bs {
			for _, c := range cs {
				n += 3
				want := safe(c.f, mk())
				r := mk()
				safe(b.f, r)
				if got := safe(c.f, r); got != want {
					res.Violate(ev.Violation{Check: "purity", Kind: "result-depends-on-history", Attrs: map[string]any{"victim": opClass(c.name), "after": opClass(b.name), "caller_default": int(set)},
						Msg:  fmt.Sprintf("view with the caller's default order %d: %s after %s returns %s, without it %s", set, c.name, b.name, got, want),
						Case: Case{Payload: hex.EncodeToString(payload), Start: start, History: []string{"default-switch-histories", fmt.Sprint(set), b.name, c.name}}})
				}
			}
		}
	}
	return n
}
