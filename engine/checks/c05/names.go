package main

import (
	"fmt"

	modbus "github.com/aldas/go-modbus-client"
	"github.com/aldas/go-modbus-client/packet"
	"verif/ev"
	"verif/lib"
	"verif/spec"
)

// Fields are identified by what they say (target, address, type), not by their Name: a field multiset in which several
// fields carry the same name (or none) must still be requested and reported field by field. (The main check gives every
// field a unique name because it uses the name to find a reported value's definition again; here the definitions are
// told apart by their addresses.)

type NameCase struct {
	FC     uint8    `json:"fc"`
	RTU    bool     `json:"rtu"`
	Path   string   `json:"path"` // "AddAll" or "Add"
	Names  []string `json:"names"`
	Fields []F      `json:"fields"`
}

func evalNames(c NameCase, res *ev.Result, lc *local) {
	lc.evals++
	bad := func(kind, msg string) {
		res.Violate(ev.Violation{Check: "builder-names", Kind: kind, Attrs: map[string]any{"path": c.Path}, Msg: fmt.Sprintf("%s; case %+v", msg, c), Case: c})
	}
	defs := make(modbus.Fields, len(c.Fields))
	for i, f := range c.Fields {
		defs[i] = f.field(i)
		defs[i].Name = c.Names[i]
	}
	var reqs []modbus.BuilderRequest
	var err error
	pan := ""
	func() {
		defer func() {
			if rec := recover(); rec != nil {
				pan = fmt.Sprint(rec)
			}
		}()
		b := modbus.NewRequestBuilder("dflt:9", 9)
		if c.Path == "Add" {
			for i := range defs {
				b.Add(&modbus.BField{Field: defs[i]})
			}
		} else {
			b.AddAll(defs)
		}
		switch {
		case c.FC == 3 && !c.RTU:
			reqs, err = b.ReadHoldingRegistersTCP()
		case c.FC == 3:
			reqs, err = b.ReadHoldingRegistersRTU()
		case !c.RTU:
			reqs, err = b.ReadInputRegistersTCP()
		default:
			reqs, err = b.ReadInputRegistersRTU()
		}
	}()
	if pan != "" {
		bad("panic", "builder panicked: "+pan)
		return
	}
	if err != nil {
		bad("build-error-on-valid-fields", fmt.Sprintf("builder returned %v", err))
		return
	}
	seen := make([]int, len(defs))
	for ri, r := range reqs {
		dec, derr := spec.DecodeReq(r.Bytes(), c.RTU)
		if derr != nil {
			bad("wrong-packet", fmt.Sprintf("request %d does not decode: %v", ri, derr))
			return
		}
		d := device(0, r.ServerAddress, dec.Unit)
		wire := d.Handle(dec).Frame(c.RTU)
		var resp packet.Response
		var perr error
		if c.RTU {
			resp, perr = packet.ParseRTUResponseWithCRC(wire)
		} else {
			resp, perr = packet.ParseTCPResponse(wire)
		}
		if perr != nil {
			bad("reply-not-parsed", fmt.Sprintf("request %d: %v", ri, perr))
			return
		}
		vals, xerr := r.ExtractFields(resp, false)
		if xerr != nil {
			bad("extract-error", fmt.Sprintf("request %d: %v", ri, xerr))
			return
		}
		for _, fv := range vals {
			found := false
			for i := range defs {
				if fv.Field == defs[i] {
					found = true
					seen[i]++
					f := c.Fields[i]
					tbl := d.Holding
					if c.FC == 4 {
						tbl = d.Input
					}
					w, defined := want(f, spec.RegsWire(tbl[int(f.Addr):int(f.Addr)+f.size()]))
					lc.values++
					if defined && !lib.Same(w, fv.Value) {
						bad("wrong-value", fmt.Sprintf("field %d (%+v) = %#v, device memory decodes to %#v", i, defs[i], fv.Value, w))
						return
					}
				}
			}
			if !found {
				bad("value-attached-to-other-definition", fmt.Sprintf("a value came back for %+v, which is none of the fields given", fv.Field))
				return
			}
		}
	}
	for i, n := range seen {
		if n != 1 {
			bad("field-coverage", fmt.Sprintf("field %d (%+v) reported %d times", i, defs[i], n))
			return
		}
	}
}

func namesCheck(res *ev.Result, lc *local) {
	sets := [][]F{
		{{Server: "A", Unit: 1, Addr: 0, Type: 5}, {Server: "A", Unit: 1, Addr: 5, Type: 5}},
		{{Server: "A", Unit: 1, Addr: 0, Type: 5}, {Server: "A", Unit: 1, Addr: 1, Type: 7}, {Server: "A", Unit: 1, Addr: 3, Type: 6}},
		{{Server: "A", Unit: 1, Addr: 0, Type: 5}, {Server: "A", Unit: 2, Addr: 0, Type: 5}, {Server: "B", Unit: 1, Addr: 0, Type: 5}},
		{{Server: "A", Unit: 1, Addr: 10, Type: 5}, {Server: "A", Unit: 1, Addr: 300, Type: 9}, {Server: "A", Unit: 1, Addr: 10, Type: 6}},
	}
	namings := func(n int) [][]string {
		out := [][]string{}
		all := func(s string) []string {
			v := make([]string, n)
			for i := range v {
				v[i] = s
			}
			return v
		}
		out = append(out, all("x"), all(""))
		first := all("x")
		first[n-1] = "y"
		out = append(out, first)
		last := all("x")
		last[0] = "y"
		out = append(out, last)
		return out
	}
	for _, fs := range sets {
		for _, names := range namings(len(fs)) {
			for _, fc := range []uint8{3, 4} {
				for _, rtu := range []bool{false, true} {
					for _, path := range []string{"AddAll", "Add"} {
						evalNames(NameCase{FC: fc, RTU: rtu, Path: path, Names: names, Fields: fs}, res, lc)
					}
				}
			}
		}
	}
}

// reuseCheck: one builder holding register AND coil fields is asked for requests several times (holding, input, holding
// again ...): what it was asked before must not change what it answers now - every call is evaluated like a first call.
func reuseCheck(res *ev.Result, lc *local) {
	mk := func(i int, typ uint8, addr uint16) modbus.Field {
		return modbus.Field{Name: fmt.Sprintf("f%d", i), ServerAddress: "A", UnitID: 1, Address: addr, Type: modbus.FieldType(typ)}
	}
	lists := [][]modbus.Field{
		{mk(0, 14, 3), mk(1, 5, 10), mk(2, 14, 4), mk(3, 7, 12), mk(4, 14, 900)},
		{mk(0, 5, 10), mk(1, 14, 3), mk(2, 9, 300), mk(3, 14, 4), mk(4, 6, 11)},
		{mk(0, 14, 1), mk(1, 14, 2), mk(2, 5, 10), mk(3, 5, 11)},
	}
	calls := [][]int{{0, 1, 0}, {1, 0, 1}, {0, 0}, {2, 0, 3, 1}, {3, 2, 0}}
	for li, fields := range lists {
		for _, seq := range calls {
			lc.evals++
			b := modbus.NewRequestBuilder("dflt:9", 9)
			for i := range fields {
				b.Add(&modbus.BField{Field: fields[i]})
			}
			for step, which := range seq {
				var reqs []modbus.BuilderRequest
				var err error
				pan := ""
				func() {
					defer func() {
						if rec := recover(); rec != nil {
							pan = fmt.Sprint(rec)
						}
					}()
					switch which {
					case 0:
						reqs, err = b.ReadHoldingRegistersTCP()
					case 1:
						reqs, err = b.ReadInputRegistersRTU()
					case 2:
						reqs, err = b.ReadCoilsTCP()
					default:
						reqs, err = b.ReadDiscreteInputsRTU()
					}
				}()
				bad := func(kind, msg string) {
					res.Violate(ev.Violation{Check: "builder-names", Kind: kind, Attrs: map[string]any{"path": "reuse"},
						Msg:  fmt.Sprintf("builder with fields %d, calls %v: call %d: %s", li, seq, step, msg),
						Case: NameCase{Path: "reuse"}})
				}
				if pan != "" || err != nil {
					bad("build-error-on-valid-fields", fmt.Sprintf("panic=%q err=%v", pan, err))
					break
				}
				wantCoil := which >= 2
				seen := map[string]int{}
				for _, r := range reqs {
					for _, f := range r.Fields {
						seen[f.Name]++
						if (f.Type == modbus.FieldTypeCoil) != wantCoil {
							bad("field-of-other-kind", fmt.Sprintf("field %s of the other kind is part of the request", f.Name))
						}
					}
				}
				broken := false
				for _, f := range fields {
					want := 0
					if (f.Type == modbus.FieldTypeCoil) == wantCoil {
						want = 1
					}
					if seen[f.Name] != want {
						bad("field-coverage", fmt.Sprintf("field %s appears %d times in the requests, want %d", f.Name, seen[f.Name], want))
						broken = true
						break
					}
				}
				if broken {
					break
				}
			}
		}
	}
}
