// C05 — fields extracted via the request builder equal the device's memory contents.
// Builder -> requests -> (spec decodes the frame) -> spec.Device of the addressed (server, unit) -> reply bytes ->
// library parser -> ExtractFields; oracle = direct decode of that device's memory.
package main

import (
	"encoding/json"
	"errors"
	"fmt"
	"math"
	"runtime"
	"sync"

	modbus "github.com/aldas/go-modbus-client"
	"github.com/aldas/go-modbus-client/packet"
	"verif/ev"
	"verif/lib"
	"verif/spec"
)

const prop = "C05"

type F struct {
	Server string `json:"server"`
	Unit   uint8  `json:"unit"`
	Addr   uint16 `json:"addr"`
	Type   uint8  `json:"type"`
	Bit    uint8  `json:"bit"`
	High   bool   `json:"high"`
	Len    uint8  `json:"len"`
	Order  uint8  `json:"order"`
}

type Case struct {
	FC       uint8 `json:"fc"` // 3 or 4
	RTU      bool  `json:"rtu"`
	Lenient  bool  `json:"lenient"`
	Image    int   `json:"image"`
	Truncate int   `json:"truncate"` // -1: full reply; k>=1: the device returns only the first k registers of the first request that has more than k
	Fields   []F   `json:"fields"`
}

type local struct{ evals, values int64 }

func (f F) field(i int) modbus.Field {
	return modbus.Field{Name: fmt.Sprintf("f%d", i), ServerAddress: f.Server, UnitID: f.Unit, Address: f.Addr, Type: modbus.FieldType(f.Type), Bit: f.Bit, FromHighByte: f.High, Length: f.Len, ByteOrder: packet.ByteOrder(f.Order)}
}

func (f F) size() int {
	switch f.Type {
	case 9, 10, 12:
		return 4
	case 7, 8, 11:
		return 2
	case 13:
		return (int(f.Len) + 1) / 2
	}
	return 1
}

// devices: one per (image family, server, unit); holding and input tables differ inside each device.
var (
	devMu sync.Mutex
	devs  = map[string]*spec.Device{}
)

type target struct {
	s string
	u uint8
}

// collidingTargets: server addresses that are prefixes of one another, with unit ids whose decimal digits complete the
// longer address ("h:502"+"10" = "h:5021"+"0"), and names containing the separator characters a grouping key might use.
func collidingTargets() []target {
	var out []target
	for _, s := range []string{"h:50", "h:502", "h:5021", "h_1", "h", "h 1"} {
		for _, u := range []uint8{0, 1, 2, 10, 11, 12, 21, 210} {
			out = append(out, target{s, u})
		}
	}
	return out
}

func device(image int, server string, unit uint8) *spec.Device {
	k := fmt.Sprintf("%d/%s/%d", image, server, unit)
	devMu.Lock()
	defer devMu.Unlock()
	if d, ok := devs[k]; ok {
		return d
	}
	salt := int(unit) * 7919
	for _, ch := range []byte(server) { // the whole name: "h:502" and "h:5021" must be different devices
		salt = salt*131 + int(ch)
	}
	salt &= 0xFFFFF
	var reg func(t, a int) uint16
	switch image {
	case 0:
		reg = func(t, a int) uint16 { return spec.ImageIdentity(t, a) ^ uint16(salt) }
	case 1:
		reg = func(t, a int) uint16 { return spec.ImageHash(t, a+salt) }
	default:
		reg = func(t, a int) uint16 { return spec.ImageText(t+salt, a) }
	}
	d := spec.NewDevice(reg, spec.BitImage)
	devs[k] = d
	return d
}

// want computes the reference value from the wire bytes of the field's own registers; ok2=false when the spec
// oracle abstains (16-bit value with a field byte order set: the library does not document what that means).
func want(f F, wire []byte) (v any, specDefined bool) {
	eff := f.Order
	if eff == 0 {
		eff = spec.DefaultOrder
	}
	if eff == spec.OrdLowWordFirst || eff == spec.OrdHighWordFirst {
		// a bare word-order flag: the bytes are read in the default (big-endian) order, the WORD order is the selected one
		eff |= spec.DefaultOrder & 3
	}
	switch f.Type {
	case 1:
		return spec.RegBit(wire, int(f.Bit)), true
	case 2, 3:
		if f.High {
			return wire[0], true
		}
		return wire[1], true
	case 4:
		if f.High {
			return int8(wire[0]), true
		}
		return int8(wire[1]), true
	case 5:
		return spec.U16(wire, spec.OrdBE), f.Order == 0
	case 6:
		return int16(spec.U16(wire, spec.OrdBE)), f.Order == 0
	case 7:
		return spec.U32(wire, eff), true
	case 8:
		return int32(spec.U32(wire, eff)), true
	case 9:
		return spec.U64(wire, eff), true
	case 10:
		return int64(spec.U64(wire, eff)), true
	case 11:
		return math.Float32frombits(spec.U32(wire, eff)), true
	case 12:
		return math.Float64frombits(spec.U64(wire, eff)), true
	case 13:
		return spec.Str(wire, int(f.Len), eff), true
	}
	return nil, false
}

func eval(c Case, res *ev.Result, lc *local) {
	lc.evals++
	fields := make(modbus.Fields, len(c.Fields))
	for i, f := range c.Fields {
		fields[i] = f.field(i)
	}
	attrs := func(m map[string]any) map[string]any {
		out := map[string]any{"truncated": c.Truncate >= 0, "lenient": c.Lenient}
		for k, v := range m {
			out[k] = v
		}
		return out
	}
	bad := func(kind, msg string, extra map[string]any) {
		res.Violate(ev.Violation{Check: "builder", Kind: kind, Attrs: attrs(extra), Msg: fmt.Sprintf("%s; case %+v", msg, c), Case: c})
	}
	var reqs []modbus.BuilderRequest
	var err error
	pan := ""
	func() {
		defer func() {
			if rec := recover(); rec != nil {
				pan = fmt.Sprint(rec)
			}
		}()
		// the builder's own default target differs from every field's: AddAll is documented not to apply it
		b := modbus.NewRequestBuilder("dflt:9", 9).AddAll(fields)
		switch {
		case c.FC == 3 && !c.RTU:
			reqs, err = b.ReadHoldingRegistersTCP()
		case c.FC == 3:
			reqs, err = b.ReadHoldingRegistersRTU()
		case !c.RTU:
			reqs, err = b.ReadInputRegistersTCP()
		default:
			reqs, err = b.ReadInputRegistersRTU()
		}
	}()
	if pan != "" {
		bad("panic", "builder panicked: "+pan, nil)
		return
	}
	if err != nil {
		bad("build-error-on-valid-fields", fmt.Sprintf("builder returned %v for valid field definitions", err), nil)
		return
	}
	got := map[string]modbus.FieldValue{}
	count := map[string]int{}
	truncatedFields := map[string]bool{} // fields whose span leaves the truncated window
	truncDone := false
	strictFailed := false
	for ri, r := range reqs {
		dec, derr := spec.DecodeReq(r.Bytes(), c.RTU)
		if derr != nil || dec.FC != c.FC {
			bad("wrong-packet", fmt.Sprintf("request %d: %s does not decode as fc %d: %v", ri, ev.Hex(r.Bytes()), c.FC, derr), nil)
			return
		}
		d := device(c.Image, r.ServerAddress, dec.Unit)
		reply := d.Handle(dec)
		if reply.Exc {
			crosses := int(dec.Addr)+int(dec.Qty) > 65536
			bad("device-refuses-request", fmt.Sprintf("request %d (%+v): conforming device answers exception %d", ri, dec, reply.ExCode), map[string]any{"crosses_65536": crosses})
			return
		}
		k := -1
		if c.Truncate >= 1 && !truncDone && int(dec.Qty) > c.Truncate {
			k = c.Truncate
			truncDone = true
			reply.Data = reply.Data[:2*k]
			for _, f := range r.Fields {
				var idx int
				fmt.Sscanf(f.Name, "f%d", &idx)
				if int(f.Address)+c.Fields[idx].size() > int(dec.Addr)+k {
					truncatedFields[f.Name] = true
				}
			}
		}
		wireReply := reply.Frame(c.RTU)
		var resp packet.Response
		var perr error
		if c.RTU {
			resp, perr = packet.ParseRTUResponseWithCRC(wireReply)
		} else {
			resp, perr = packet.ParseTCPResponse(wireReply)
		}
		if perr != nil {
			bad("reply-not-parsed", fmt.Sprintf("request %d: reply %s: %v", ri, ev.Hex(wireReply), perr), nil)
			return
		}
		var vals []modbus.FieldValue
		var xerr error
		func() {
			defer func() {
				if rec := recover(); rec != nil {
					pan = fmt.Sprint(rec)
				}
			}()
			vals, xerr = r.ExtractFields(resp, c.Lenient)
		}()
		if pan != "" {
			bad("panic", fmt.Sprintf("ExtractFields panicked on request %d: %s", ri, pan), nil)
			return
		}
		anyTrunc := false
		for _, f := range r.Fields {
			if truncatedFields[f.Name] {
				anyTrunc = true
			}
		}
		if k >= 0 && anyTrunc && !c.Lenient {
			if xerr == nil || len(vals) != 0 {
				bad("strict-does-not-fail", fmt.Sprintf("request %d truncated to %d registers: strict extraction returned %d values, err=%v", ri, k, len(vals), xerr), nil)
				return
			}
			strictFailed = true
			continue
		}
		if anyTrunc && c.Lenient {
			if !errors.Is(xerr, modbus.ErrorFieldExtractHadError) {
				bad("lenient-no-error-marker", fmt.Sprintf("request %d truncated: lenient extraction error = %v", ri, xerr), nil)
				return
			}
		} else if xerr != nil {
			bad("extract-error", fmt.Sprintf("request %d: ExtractFields(lenient=%v) = %v on a complete reply", ri, c.Lenient, xerr), nil)
			return
		}
		for _, fv := range vals {
			got[fv.Field.Name] = fv
			count[fv.Field.Name]++
		}
	}
	// every field exactly once, attached to its own definition, with the device's value
	for i := range c.Fields {
		name := fmt.Sprintf("f%d", i)
		if strictFailed {
			continue // strict mode failed as a whole for the truncated request; other requests' fields are still checked below if present
		}
		if count[name] != 1 {
			bad("field-coverage", fmt.Sprintf("field %s reported %d times", name, count[name]), map[string]any{"times": count[name]})
			return
		}
	}
	for name, fv := range got {
		var idx int
		fmt.Sscanf(name, "f%d", &idx)
		f := c.Fields[idx]
		if fv.Field != f.field(idx) {
			bad("value-attached-to-other-definition", fmt.Sprintf("field %s came back as %+v", name, fv.Field), nil)
			return
		}
		if truncatedFields[name] {
			if fv.Error == nil {
				bad("unreachable-field-not-marked", fmt.Sprintf("field %s lies beyond the truncated reply but carries no error (value %#v)", name, fv.Value), nil)
				return
			}
			continue
		}
		if fv.Error != nil {
			bad("reachable-field-marked-failed", fmt.Sprintf("field %s is inside the reply but carries error %v", name, fv.Error), nil)
			return
		}
		d := device(c.Image, f.Server, f.Unit)
		tbl := d.Holding
		if c.FC == 4 {
			tbl = d.Input
		}
		wire := spec.RegsWire(tbl[int(f.Addr) : int(f.Addr)+f.size()])
		lc.values++
		// (a) differential: the same field decoded from a tight single-field window
		tight, terr := packet.NewRegisters(append([]byte(nil), wire...), f.Addr)
		if terr == nil {
			fld := f.field(idx)
			tv, te := fld.ExtractFrom(tight)
			if te == nil && !lib.Same(tv, fv.Value) {
				bad("value-depends-on-batching", fmt.Sprintf("field %s = %#v through the batch, %#v from a tight window over the same registers", name, fv.Value, tv), map[string]any{"type": int(f.Type)})
				return
			}
		}
		// (b) reference decode
		if w, defined := want(f, wire); defined && !lib.Same(w, fv.Value) {
			bad("wrong-value", fmt.Sprintf("field %s (%+v) = %#v, device memory decodes to %#v (wire %x)", name, f, fv.Value, w, wire), map[string]any{"type": int(f.Type)})
			return
		}
	}
}

func variants(addrs []uint16, small bool) []F {
	var out []F
	orders := []uint8{0, 1, 2, 5, 6, 9, 10, 4, 8} // 4 / 8: a word-order flag alone
	if small {
		orders = []uint8{0, 5, 6}
	}
	for _, a := range addrs {
		fit := func(sz int) bool { return int(a)+sz <= 65536 }
		for _, b := range []uint8{0, 7, 8, 15} {
			if small && b != 8 {
				continue
			}
			out = append(out, F{Addr: a, Type: 1, Bit: b})
		}
		for _, t := range []uint8{2, 3, 4} {
			if small && t != 4 {
				continue
			}
			out = append(out, F{Addr: a, Type: t, High: true}, F{Addr: a, Type: t, High: false})
		}
		out = append(out, F{Addr: a, Type: 5}, F{Addr: a, Type: 6})
		if !small {
			out = append(out, F{Addr: a, Type: 5, Order: 2}, F{Addr: a, Type: 6, Order: 6})
		}
		for _, o := range orders {
			for _, t := range []uint8{7, 8, 11} {
				if small && t != 7 {
					continue
				}
				if fit(2) {
					out = append(out, F{Addr: a, Type: t, Order: o})
				}
			}
			for _, t := range []uint8{9, 10, 12} {
				if small && t != 10 {
					continue
				}
				if fit(4) {
					out = append(out, F{Addr: a, Type: t, Order: o})
				}
			}
			for _, l := range []uint8{1, 2, 3, 10, 249, 250} {
				if small && l != 3 && l != 250 {
					continue
				}
				if o == 4 || o == 8 {
					continue // what a bare word-order flag means for the BYTES of a string is not documented anywhere: not demanded
				}
				if fit((int(l) + 1) / 2) {
					out = append(out, F{Addr: a, Type: 13, Len: l, Order: o})
				}
			}
		}
	}
	return out
}

func run(tier string, shard, nsh int, res *ev.Result) {
	if err := spec.SelfCheck(); err != nil {
		panic(err)
	}
	thorough := tier == "thorough"
	addrs := []uint16{0, 1, 2, 60, 61, 121, 122, 123, 124, 125, 126, 127, 248, 249, 250, 251, 252, 65531, 65532, 65533, 65534, 65535}
	singles := variants(addrs, false)
	pairAlpha := variants([]uint16{0, 1, 60, 122, 124, 125, 126, 250, 65534, 65535}, true)
	tripAlpha := variants([]uint16{0, 3, 124, 125, 65535}, true)
	type cfg struct {
		fc      uint8
		rtu     bool
		lenient bool
	}
	var cfgs []cfg
	for _, fc := range []uint8{3, 4} {
		for _, rtu := range []bool{false, true} {
			for _, le := range []bool{false, true} {
				cfgs = append(cfgs, cfg{fc, rtu, le})
			}
		}
	}
	images := []int{0}
	if thorough {
		images = []int{0, 1, 2}
	}
	var jobs []func(lc *local)
	su := [][2]any{{"A", uint8(1)}, {"B", uint8(1)}, {"A", uint8(2)}, {"B", uint8(2)}}
	for _, cf := range cfgs {
		cf := cf
		for _, img := range []int{0, 1, 2} {
			img := img
			jobs = append(jobs, func(lc *local) { // singles on every image, every server/unit
				for _, f := range singles {
					for _, v := range su {
						f.Server, f.Unit = v[0].(string), v[1].(uint8)
						eval(Case{FC: cf.fc, RTU: cf.rtu, Lenient: cf.lenient, Image: img, Truncate: -1, Fields: []F{f}}, res, lc)
						if sz := f.size(); sz > 1 {
							for k := 1; k < sz; k++ {
								if sz > 12 && k != 1 && k != 2 && k != sz/2 && k != sz-2 && k != sz-1 {
									continue
								}
								eval(Case{FC: cf.fc, RTU: cf.rtu, Lenient: cf.lenient, Image: img, Truncate: k, Fields: []F{f}}, res, lc)
							}
						}
					}
				}
			})
		}
		jobs = append(jobs, func(lc *local) { // same-address fields that are not neighbours in the list; an explicit unit id 0
			types := []uint8{5, 9, 1, 13}
			for _, t1 := range types {
				for _, t2 := range types {
					for _, a := range []uint16{10, 65530} {
						x := F{Server: "A", Unit: 1, Addr: a, Type: t1, Bit: 9, Len: 3}
						y := F{Server: "A", Unit: 1, Addr: a + 2, Type: 7, Len: 0}
						z := F{Server: "A", Unit: 1, Addr: a, Type: t2, Bit: 2, Len: 4}
						eval(Case{FC: cf.fc, RTU: cf.rtu, Lenient: cf.lenient, Image: 1, Truncate: -1, Fields: []F{x, y, z}}, res, lc)
						y2 := y
						y2.Server, y2.Addr = "B", a
						eval(Case{FC: cf.fc, RTU: cf.rtu, Lenient: cf.lenient, Image: 1, Truncate: -1, Fields: []F{x, y2, z}}, res, lc)
						x0 := x
						x0.Unit = 0
						eval(Case{FC: cf.fc, RTU: cf.rtu, Lenient: cf.lenient, Image: 1, Truncate: -1, Fields: []F{x0, z}}, res, lc)
					}
				}
			}
		})
		jobs = append(jobs, func(lc *local) { // pairs of targets whose names / unit ids concatenate ambiguously
			targets := collidingTargets()
			fa := F{Addr: 10, Type: 5}
			fb := F{Addr: 12, Type: 9}
			for _, ta := range targets {
				for _, tb := range targets {
					a, b := fa, fb
					a.Server, a.Unit = ta.s, ta.u
					b.Server, b.Unit = tb.s, tb.u
					eval(Case{FC: cf.fc, RTU: cf.rtu, Lenient: cf.lenient, Image: 1, Truncate: -1, Fields: []F{a, b}}, res, lc)
				}
			}
		})
		for _, img := range images {
			img := img
			for i0 := 0; i0 < len(pairAlpha); i0 += 8 {
				i0 := i0
				jobs = append(jobs, func(lc *local) { // pairs
					for i := i0; i < i0+8 && i < len(pairAlpha); i++ {
						a := pairAlpha[i]
						a.Server, a.Unit = "A", 1
						for _, b := range pairAlpha {
							for _, v := range su[:3] {
								b.Server, b.Unit = v[0].(string), v[1].(uint8)
								fs := []F{a, b}
								eval(Case{FC: cf.fc, RTU: cf.rtu, Lenient: cf.lenient, Image: img, Truncate: -1, Fields: fs}, res, lc)
								if v[0] == "A" && v[1] == uint8(1) {
									lo, hi := int(a.Addr), int(a.Addr)+a.size()
									if int(b.Addr) < lo {
										lo = int(b.Addr)
									}
									if e := int(b.Addr) + b.size(); e > hi {
										hi = e
									}
									if q := hi - lo; q <= 125 && q > 1 {
										for k := 1; k < q; k++ {
											if q > 12 && k != 1 && k != a.size() && k != b.size() && k != q/2 && k != q-2 && k != q-1 {
												continue
											}
											eval(Case{FC: cf.fc, RTU: cf.rtu, Lenient: cf.lenient, Image: img, Truncate: k, Fields: fs}, res, lc)
										}
									}
								}
							}
						}
					}
				})
			}
		}
		if thorough {
			for i := range tripAlpha {
				i := i
				jobs = append(jobs, func(lc *local) {
					a := tripAlpha[i]
					a.Server, a.Unit = "A", 1
					for _, b := range tripAlpha {
						b.Server, b.Unit = "A", 1
						for _, c3 := range tripAlpha {
							for _, v := range su[:2] {
								c3.Server, c3.Unit = v[0].(string), v[1].(uint8)
								eval(Case{FC: cf.fc, RTU: cf.rtu, Lenient: cf.lenient, Image: 1, Truncate: -1, Fields: []F{a, b, c3}}, res, lc)
							}
						}
					}
				})
			}
		}
		// the ORDER in which fields are added: every permutation of four overlapping / adjacent fields of one target, and of
		// four fields that need two requests (a lower address added after a higher one, after a lower one again);
		// 16-bit fields carrying an explicit byte order placed before and after default-order wide fields
		jobs = append(jobs, func(lc *local) {
			sets := [][]F{
				{{Addr: 10, Type: 5}, {Addr: 8, Type: 7}, {Addr: 12, Type: 5}, {Addr: 11, Type: 9}},
				{{Addr: 10, Type: 5}, {Addr: 300, Type: 5}, {Addr: 10, Type: 6}, {Addr: 250, Type: 7}},
				{{Addr: 0, Type: 5}, {Addr: 120, Type: 9}, {Addr: 122, Type: 13, Len: 10}, {Addr: 5, Type: 7}},
			}
			for _, o := range []uint8{2, 5, 6, 9, 10} {
				sets = append(sets, []F{{Addr: 100, Type: 5, Order: o}, {Addr: 101, Type: 7}, {Addr: 103, Type: 10}, {Addr: 107, Type: 11}},
					[]F{{Addr: 100, Type: 7}, {Addr: 102, Type: 6, Order: o}, {Addr: 103, Type: 9}, {Addr: 107, Type: 13, Len: 5}})
			}
			var perms [][]int
			var gen func(cur []int, used int)
			gen = func(cur []int, used int) {
				if len(cur) == 4 {
					perms = append(perms, append([]int(nil), cur...))
					return
				}
				for i := 0; i < 4; i++ {
					if used&(1<<i) == 0 {
						gen(append(cur, i), used|1<<i)
					}
				}
			}
			gen(nil, 0)
			for _, set := range sets {
				for _, p := range perms {
					fs := make([]F, 4)
					for i, j := range p {
						fs[i] = set[j]
						fs[i].Server, fs[i].Unit = "A", 1
					}
					eval(Case{FC: cf.fc, RTU: cf.rtu, Lenient: cf.lenient, Image: 1, Truncate: -1, Fields: fs}, res, lc)
				}
			}
		})
		// chains
		jobs = append(jobs, func(lc *local) {
			for _, st := range []int{1, 2, 3, 4, 62, 63, 124, 125, 126} {
				for _, proto := range []F{{Type: 5}, {Type: 7, Order: 5}, {Type: 10, Order: 6}, {Type: 13, Len: 5}, {Type: 1, Bit: 9}} {
					for k := 1; k <= 130; k++ {
						if !thorough && k > 10 && k%13 != 0 && k < 124 {
							continue
						}
						var fs []F
						for j := 0; j < k; j++ {
							f := proto
							a := 7 + j*st
							if a+f.size() > 65536 {
								break
							}
							f.Addr, f.Server, f.Unit = uint16(a), "B", 2
							fs = append(fs, f)
						}
						eval(Case{FC: cf.fc, RTU: cf.rtu, Lenient: cf.lenient, Image: 1, Truncate: -1, Fields: fs}, res, lc)
						if k%5 == 0 {
							eval(Case{FC: cf.fc, RTU: cf.rtu, Lenient: cf.lenient, Image: 1, Truncate: 3, Fields: fs}, res, lc)
						}
					}
				}
			}
		})
	}
	if shard == 0 {
		jobs = append(jobs, func(lc *local) { namesCheck(res, lc); reuseCheck(res, lc) })
	}
	var mu sync.Mutex
	var tot local
	ev.Par(len(jobs), runtime.NumCPU(), func(i int) {
		var lc local
		jobs[i](&lc)
		mu.Lock()
		tot.evals += lc.evals
		tot.values += lc.values
		mu.Unlock()
	})
	res.Add("evaluations", tot.evals)
	res.Add("field_values_compared", tot.values)
	res.DistinctAdd("nontrivial", tot.values)
	res.Axis("configuration", "FC3/FC4 x TCP/RTU x strict/lenient", 8)
	res.Axis("single fields", "13 types x 22 addresses x bits/bytes/7 orders/6 string lengths x 2 servers x 2 units x 3 memory images + every truncation", int64(len(singles)*4*3))
	res.Axis("pairs", "reduced alphabet squared x 3 target variants (+ truncations of same-target pairs)", int64(len(pairAlpha)*len(pairAlpha)*3))
	res.Axis("triples (thorough)", "reduced alphabet cubed x 2", int64(len(tripAlpha)*len(tripAlpha)*len(tripAlpha)*2))
	res.Axis("chains", "k=1..130 x 9 strides x 5 field kinds", 130*9*5)
	res.Sample(Case{FC: 3, Image: 0, Truncate: -1, Fields: []F{{Server: "A", Unit: 1, Addr: 65535, Type: 5}}})
	res.Sample(Case{FC: 4, RTU: true, Lenient: true, Image: 1, Truncate: 2, Fields: []F{{Server: "A", Unit: 1, Addr: 0, Type: 9, Order: 5}, {Server: "A", Unit: 1, Addr: 1, Type: 1, Bit: 8}}})
}

func replay(check string, raw json.RawMessage, res *ev.Result) {
	if check == "builder-names" {
		var c NameCase
		json.Unmarshal(raw, &c)
		var lc local
		if c.Path == "reuse" {
			reuseCheck(res, &lc)
			return
		}
		evalNames(c, res, &lc)
		return
	}
	var c Case
	json.Unmarshal(raw, &c)
	var lc local
	eval(c, res, &lc)
}

func main() {
	ev.Main(ev.Spec{
		Property: prop, Level: "exploration",
		Rule: "field lists over the declared alphabets; every build is played against per-(server,unit,function) device memories through the real parsers and ExtractFields; each value is compared with (a) the same field decoded " +
			"from a tight single-field window and (b) an independent decode of the device memory. non-trivial = field values compared, distinct by construction",
		Assumptions: []string{"16-bit fields with a field-level byte order set are compared differentially only (the library does not document a meaning for it)",
			"device model answers per the specification (engine/spec/device.go); memory images are position-revealing (identity / hash / text with NULs)"},
		Run: run, Replay: replay,
	})
}
