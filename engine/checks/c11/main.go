// C11 — coil lookup follows the Modbus bit layout and inverts the library's packing.
package main

import (
	"encoding/json"
	"fmt"
	"runtime"
	"sync"

	modbus "github.com/aldas/go-modbus-client"
	"github.com/aldas/go-modbus-client/packet"
	"verif/ev"
	"verif/lib"
	"verif/spec"
)

const prop = "C11"

type Case struct {
	Part    string `json:"part"` // "lookup", "extract", "readback"
	API     string `json:"api"`  // which method
	Len     int    `json:"len"`  // payload bytes (lookup) / coil count (readback)
	Start   int    `json:"start"`
	Pattern string `json:"pattern"`
	K       int    `json:"k"`
	Addr    int    `json:"addr"` // queried address (lookup) / -1
	RTU     bool   `json:"rtu"`
	Order   string `json:"field_order,omitempty"` // extract: "", "reversed", "last-only"
}

type local struct{ evals, inside int64 }

func look(api string, data []byte, start, addr uint16) (v bool, err error, pan string) {
	defer func() {
		if rec := recover(); rec != nil {
			pan = fmt.Sprint(rec)
		}
	}()
	switch api {
	case "ReadCoilsResponse.IsCoilSet":
		v, err = packet.ReadCoilsResponse{UnitID: 1, CoilsByteLength: uint8(len(data)), Data: data}.IsCoilSet(start, addr)
	case "ReadCoilsResponseTCP.IsCoilSet":
		v, err = packet.ReadCoilsResponseTCP{ReadCoilsResponse: packet.ReadCoilsResponse{UnitID: 1, CoilsByteLength: uint8(len(data)), Data: data}}.IsCoilSet(start, addr)
	case "ReadCoilsResponseRTU.IsCoilSet":
		v, err = packet.ReadCoilsResponseRTU{ReadCoilsResponse: packet.ReadCoilsResponse{UnitID: 1, CoilsByteLength: uint8(len(data)), Data: data}}.IsCoilSet(start, addr)
	case "ReadDiscreteInputsResponse.IsInputSet":
		v, err = packet.ReadDiscreteInputsResponse{UnitID: 1, InputsByteLength: uint8(len(data)), Data: data}.IsInputSet(start, addr)
	case "ReadDiscreteInputsResponse.IsCoilSet":
		v, err = packet.ReadDiscreteInputsResponse{UnitID: 1, InputsByteLength: uint8(len(data)), Data: data}.IsCoilSet(start, addr)
	case "ReadDiscreteInputsResponseTCP.IsInputSet":
		v, err = packet.ReadDiscreteInputsResponseTCP{ReadDiscreteInputsResponse: packet.ReadDiscreteInputsResponse{UnitID: 1, InputsByteLength: uint8(len(data)), Data: data}}.IsInputSet(start, addr)
	case "ReadDiscreteInputsResponseRTU.IsCoilSet":
		v, err = packet.ReadDiscreteInputsResponseRTU{ReadDiscreteInputsResponse: packet.ReadDiscreteInputsResponse{UnitID: 1, InputsByteLength: uint8(len(data)), Data: data}}.IsCoilSet(start, addr)
	default:
		panic("harness: api " + api)
	}
	return
}

var apis = []string{"ReadCoilsResponse.IsCoilSet", "ReadDiscreteInputsResponse.IsInputSet", "ReadDiscreteInputsResponse.IsCoilSet",
	"ReadCoilsResponseTCP.IsCoilSet", "ReadCoilsResponseRTU.IsCoilSet", "ReadDiscreteInputsResponseTCP.IsInputSet", "ReadDiscreteInputsResponseRTU.IsCoilSet"}

// judge compares one lookup with the specification's layout.
func judge(c Case, data []byte, got bool, err error, pan string, res *ev.Result, lc *local) {
	lc.evals++
	i := c.Addr - c.Start
	inside := i >= 0 && i < 8*len(data)
	attrs := map[string]any{"part": c.Part, "payload_len_ge2": len(data) >= 2, "_api": c.API}
	if pan != "" {
		res.Violate(ev.Violation{Check: "coil", Kind: "panic", Attrs: attrs, Msg: fmt.Sprintf("%+v panicked: %s", c, pan), Case: c})
		return
	}
	if !inside {
		if err == nil {
			attrs["pos"] = map[bool]string{true: "before", false: "beyond"}[i < 0]
			res.Violate(ev.Violation{Check: "coil", Kind: "accepts-outside", Attrs: attrs, Msg: fmt.Sprintf("%+v: address outside [start, start+%d) but got (%v, nil)", c, 8*len(data), got), Case: c})
		}
		return
	}
	lc.inside++
	if err != nil {
		res.Violate(ev.Violation{Check: "coil", Kind: "rejects-inside", Attrs: attrs, Msg: fmt.Sprintf("%+v: address inside the payload but got error %v", c, err), Case: c})
		return
	}
	want := spec.Bit(data, i)
	if got != want {
		rev := data[len(data)-1-i/8]&(1<<uint(i%8)) != 0 // what reading the bytes in reverse order gives
		attrs["explained_by_reversed_byte_order"] = got == rev
		res.Violate(ev.Violation{Check: "coil", Kind: "wrong-value", Attrs: attrs,
			Msg: fmt.Sprintf("%+v: coil start+%d = bit %d of byte %d is %v, library says %v", c, i, i%8, i/8, want, got), Case: c})
	}
}

func evalLookup(c Case, res *ev.Result, lc *local) {
	data := lib.Pattern(c.Pattern, c.Len, c.K)
	got, err, pan := look(c.API, data, uint16(c.Start), uint16(c.Addr))
	judge(c, data, got, err, pan, res, lc)
}

// evalExtract: coil fields through BuilderRequest.ExtractFields (strict), every coil of the payload.
func evalExtract(c Case, res *ev.Result, lc *local) {
	data := lib.Pattern(c.Pattern, c.Len, c.K)
	var fields modbus.Fields
	n := 8 * c.Len
	for i := 0; i < n && c.Start+i <= 65535; i++ {
		fields = append(fields, modbus.Field{Name: fmt.Sprint(i), ServerAddress: "s", UnitID: 1, Address: uint16(c.Start + i), Type: modbus.FieldTypeCoil})
	}
	offsetOf := func(i int) int { return i }
	switch c.Order {
	case "reversed": // the highest address first
		for a, b := 0, len(fields)-1; a < b; a, b = a+1, b-1 {
			fields[a], fields[b] = fields[b], fields[a]
		}
		nf := len(fields)
		offsetOf = func(i int) int { return nf - 1 - i }
	case "rotated": // neither ascending nor descending: the list rotated by one third (22, 23, ..., 20, 21)
		nf := len(fields)
		rot := nf / 3
		if rot == 0 {
			rot = 1
		}
		fields = append(append(modbus.Fields{}, fields[rot:]...), fields[:rot]...)
		offsetOf = func(i int) int { return (i + rot) % nf }
	case "beyond-first": // a field past the payload listed first, lenient extraction: the others must still be extracted
		beyond := modbus.Field{Name: "beyond", ServerAddress: "s", UnitID: 1, Address: uint16(c.Start + n), Type: modbus.FieldTypeCoil}
		if c.Start+n > 65535 {
			return
		}
		fields = append(modbus.Fields{beyond}, fields...)
		offsetOf = func(i int) int { return i - 1 }
	case "last-only": // a request whose only field is the last coil of the window
		fields = fields[len(fields)-1:]
		nf := n
		if c.Start+n > 65536 {
			nf = 65536 - c.Start
		}
		offsetOf = func(i int) int { return nf - 1 }
	}
	br := modbus.BuilderRequest{ServerAddress: "s", UnitID: 1, StartAddress: uint16(c.Start), Fields: fields}
	var resp packet.Response
	if c.RTU {
		resp = &packet.ReadCoilsResponseRTU{ReadCoilsResponse: packet.ReadCoilsResponse{UnitID: 1, CoilsByteLength: uint8(c.Len), Data: data}}
	} else {
		resp = &packet.ReadDiscreteInputsResponseTCP{ReadDiscreteInputsResponse: packet.ReadDiscreteInputsResponse{UnitID: 1, InputsByteLength: uint8(c.Len), Data: data}}
	}
	var vals []modbus.FieldValue
	var err error
	pan := ""
	func() {
		defer func() {
			if rec := recover(); rec != nil {
				pan = fmt.Sprint(rec)
			}
		}()
		vals, err = br.ExtractFields(resp, c.Order == "beyond-first")
	}()
	// (lenient extraction reports "there were errors" next to the values: that is expected with the field past the payload)
	if pan != "" || (err != nil && c.Order != "beyond-first") || len(vals) != len(fields) {
		lc.evals++
		res.Violate(ev.Violation{Check: "coil", Kind: "extract-fails", Attrs: map[string]any{"part": "extract"}, Msg: fmt.Sprintf("%+v: ExtractFields: panic=%q err=%v values=%d/%d", c, pan, err, len(vals), len(fields)), Case: c})
		return
	}
	for i, fv := range vals {
		if c.Order == "beyond-first" && i == 0 {
			if fv.Error == nil {
				res.Violate(ev.Violation{Check: "coil", Kind: "accepts-outside", Attrs: map[string]any{"part": "extract"}, Msg: fmt.Sprintf("%+v: the field past the payload was extracted without error", c), Case: c})
			}
			continue
		}
		cc := c
		cc.Addr = c.Start + offsetOf(i)
		b, _ := fv.Value.(bool)
		judge(cc, data, b, fv.Error, "", res, lc)
	}
}

// evalReadback: write N coils (pattern) with the library's FC15 request -> conforming device -> FC1 reply -> library
// parse -> IsCoilSet must give back the written pattern.
func evalReadback(c Case, dev *spec.Device, res *ev.Result, lc *local) {
	n := c.Len
	packed := lib.Pattern(c.Pattern, (n+7)/8, c.K)
	coils := lib.Bits(packed, n)
	start := uint16(c.Start)
	var frame []byte
	if c.RTU {
		q, err := packet.NewWriteMultipleCoilsRequestRTU(3, start, coils)
		if err != nil {
			return
		}
		frame = q.Bytes()
	} else {
		q, err := packet.NewWriteMultipleCoilsRequestTCP(3, start, coils)
		if err != nil {
			return
		}
		frame = q.Bytes()
	}
	lc.evals++
	attrs := map[string]any{"part": "readback", "payload_len_ge2": (n+7)/8 >= 2}
	// CoilsToBytes itself
	if got := packet.CoilsToBytes(coils); string(got) != string(spec.PackBits(coils)) {
		res.Violate(ev.Violation{Check: "coil", Kind: "packing-differs", Attrs: attrs, Msg: fmt.Sprintf("%+v: CoilsToBytes = %s, specification packs %s", c, ev.Hex(got), ev.Hex(spec.PackBits(coils))), Case: c})
		return
	}
	wr, err := spec.DecodeReq(frame, c.RTU)
	if err != nil || !wr.Legal() {
		res.Violate(ev.Violation{Check: "coil", Kind: "write-frame-not-decodable", Attrs: attrs, Msg: fmt.Sprintf("%+v: frame %s: %v", c, ev.Hex(frame), err), Case: c})
		return
	}
	if r := dev.Handle(wr); r.Exc {
		res.Violate(ev.Violation{Check: "coil", Kind: "device-refuses-write", Attrs: attrs, Msg: fmt.Sprintf("%+v: device answered exception %d", c, r.ExCode), Case: c})
		return
	}
	rd := dev.Handle(spec.Req{FC: 1, Unit: 3, TID: 9, Addr: start, Qty: uint16(n)})
	reply := rd.Frame(c.RTU)
	var data []byte
	if c.RTU {
		p, err := packet.ParseRTUResponseWithCRC(reply)
		if err != nil {
			res.Violate(ev.Violation{Check: "coil", Kind: "reply-not-parsed", Attrs: attrs, Msg: fmt.Sprintf("%+v: %v", c, err), Case: c})
			return
		}
		data = p.(*packet.ReadCoilsResponseRTU).Data
	} else {
		p, err := packet.ParseTCPResponse(reply)
		if err != nil {
			res.Violate(ev.Violation{Check: "coil", Kind: "reply-not-parsed", Attrs: attrs, Msg: fmt.Sprintf("%+v: %v", c, err), Case: c})
			return
		}
		data = p.(*packet.ReadCoilsResponseTCP).Data
	}
	js := []int{}
	if n <= 64 {
		for j := 0; j < n; j++ {
			js = append(js, j)
		}
	} else {
		for _, j := range []int{0, c.K - 8, c.K - 1, c.K, c.K + 1, c.K + 8, n - 1} {
			if j >= 0 && j < n {
				js = append(js, j)
			}
		}
	}
	for _, j := range js {
		got, err, pan := look("ReadCoilsResponse.IsCoilSet", data, start, start+uint16(j))
		lc.evals++
		lc.inside++
		if pan != "" || err != nil {
			res.Violate(ev.Violation{Check: "coil", Kind: "readback-fails", Attrs: attrs, Msg: fmt.Sprintf("%+v: coil %d: panic=%q err=%v", c, j, pan, err), Case: c})
			return
		}
		if got != coils[j] {
			rev := data[len(data)-1-j/8]&(1<<uint(j%8)) != 0
			a := map[string]any{"explained_by_reversed_byte_order": got == rev}
			for k, v := range attrs {
				a[k] = v
			}
			res.Violate(ev.Violation{Check: "coil", Kind: "readback-differs", Attrs: a, Msg: fmt.Sprintf("%+v: wrote coil %d = %v, read back %v", c, j, coils[j], got), Case: c})
			return
		}
	}
}

func run(tier string, shard, nsh int, res *ev.Result) {
	if err := spec.SelfCheck(); err != nil {
		panic(err)
	}
	thorough := tier == "thorough"
	lens := []int{1, 2, 3, 4, 8, 125, 249, 250}
	if thorough {
		lens = nil
		for l := 1; l <= 250; l++ {
			lens = append(lens, l)
		}
	}
	var jobs []func(lc *local)
	if shard == 0 {
		jobs = append(jobs, func(lc *local) { builtCheck(res, lc) })
		jobs = append(jobs, func(lc *local) { lookupSequences(res, lc); inputIntact(res, lc) })
	}
	for _, L := range lens {
		L := L
		jobs = append(jobs, func(lc *local) {
			// (9 994 / 10 001 / 19 996 / 29 998 / 40 001: windows lying across and next to the "reference number" ranges of
			// the old Modicon notation - an address is an address, whatever it looks like)
			starts := []int{0, 1, 7, 8, 9, 100, 65536 - 8*L, 65535 - 8*L, 65536 - 8*L + 3, 9994, 10001, 19996, 29998, 40001}
			for si, s := range starts {
				if s < 0 {
					continue
				}
				full := si == 0 || si == 4 || si == 6 || L <= 4 // all one-hot positions x all addresses
				for _, pat := range []string{"onehot", "onecold"} {
					for k := 0; k < 8*L; k++ {
						if !full && k%61 != 0 && k != 8*L-1 && k != 8 && k != 7 {
							continue
						}
						api := apis[(k+si)%3]
						// queries far away from the window (also on the other side of the 10001.. / 20000 marks)
						for _, a := range []int{s + 10000, s + 10003, s - 9996, 5, 10001, 10005, 19999, 20000, s + 30000} {
							if a >= 0 && a <= 65535 && (a < s-2 || a > s+8*L+2) && (k == 0 || k == 8*L-1) {
								evalLookup(Case{Part: "lookup", API: api, Len: L, Start: s, Pattern: pat, K: k, Addr: a}, res, lc)
							}
						}
						if full {
							for a := s - 2; a <= s+8*L+2; a++ {
								if a < 0 || a > 65535 {
									continue
								}
								evalLookup(Case{Part: "lookup", API: api, Len: L, Start: s, Pattern: pat, K: k, Addr: a}, res, lc)
							}
						} else {
							for _, a := range []int{s - 1, s, s + k - 8, s + k - 1, s + k, s + k + 1, s + k + 8, s + 8*L - 1, s + 8*L} {
								if a < 0 || a > 65535 {
									continue
								}
								evalLookup(Case{Part: "lookup", API: api, Len: L, Start: s, Pattern: pat, K: k, Addr: a}, res, lc)
							}
						}
					}
				}
				for _, api := range apis {
					for _, pat := range []string{"pos", "alt", "zeros", "ones"} {
						for _, a := range lib.B16 {
							evalLookup(Case{Part: "lookup", API: api, Len: L, Start: s, Pattern: pat, Addr: int(a)}, res, lc)
						}
						for _, a := range []int{s - 1, s, s + 1, s + 7, s + 8, s + 9, s + 8*L - 1, s + 8*L} {
							if a >= 0 && a <= 65535 {
								evalLookup(Case{Part: "lookup", API: api, Len: L, Start: s, Pattern: pat, Addr: a}, res, lc)
							}
						}
					}
				}
			}
			if L <= 8 || L == 125 || L == 250 {
				for _, rtu := range []bool{false, true} {
					for _, s := range []int{0, 9, 65536 - 8*L} {
						for _, pat := range []string{"pos", "onehot", "onecold"} {
							for _, k := range []int{0, 7, 8, 8*L - 1} {
								evalExtract(Case{Part: "extract", API: "BuilderRequest.ExtractFields", Len: L, Start: s, Pattern: pat, K: k, RTU: rtu}, res, lc)
								if L <= 2 || k == 0 {
									evalExtract(Case{Part: "extract", API: "BuilderRequest.ExtractFields", Len: L, Start: s, Pattern: pat, K: k, RTU: rtu, Order: "reversed"}, res, lc)
									evalExtract(Case{Part: "extract", API: "BuilderRequest.ExtractFields", Len: L, Start: s, Pattern: "ones", K: k, RTU: rtu, Order: "last-only"}, res, lc)
									evalExtract(Case{Part: "extract", API: "BuilderRequest.ExtractFields", Len: L, Start: s, Pattern: pat, K: k, RTU: rtu, Order: "last-only"}, res, lc)
									evalExtract(Case{Part: "extract", API: "BuilderRequest.ExtractFields", Len: L, Start: s, Pattern: pat, K: k, RTU: rtu, Order: "rotated"}, res, lc)
									evalExtract(Case{Part: "extract", API: "BuilderRequest.ExtractFields", Len: L, Start: s, Pattern: pat, K: k, RTU: rtu, Order: "beyond-first"}, res, lc)
								}
							}
						}
					}
				}
			}
		})
	}
	// data values (not positions): every 1-byte and every 2-byte payload value, every coil of it
	for chunk := 0; chunk < 16; chunk++ {
		chunk := chunk
		jobs = append(jobs, func(lc *local) {
			apis := []string{"ReadCoilsResponse.IsCoilSet", "ReadDiscreteInputsResponse.IsInputSet", "ReadDiscreteInputsResponse.IsCoilSet"}
			for v := chunk * 4096; v < (chunk+1)*4096; v++ {
				api := apis[v%3]
				for a := 0; a < 16; a++ {
					evalLookup(Case{Part: "lookup", API: api, Len: 2, Start: 40, Pattern: "word", K: v, Addr: 40 + a}, res, lc)
				}
				if v < 256 {
					for _, api := range apis {
						for a := 0; a < 9; a++ {
							evalLookup(Case{Part: "lookup", API: api, Len: 1, Start: 40, Pattern: "word", K: v << 8, Addr: 40 + a}, res, lc)
						}
					}
				}
			}
		})
	}
	// write -> device -> read-back for every coil count
	for lo := 1; lo <= 1968; lo += 41 {
		lo := lo
		jobs = append(jobs, func(lc *local) {
			dev := spec.NewDevice(spec.ImageIdentity, func(t, a int) bool { return false })
			for n := lo; n < lo+41 && n <= 1968; n++ {
				if !thorough && n > 130 && n%8 > 1 && n < 1960 {
					continue
				}
				for _, rtu := range []bool{false, true} {
					step := 1
					if !thorough && n > 64 {
						step = 13
					}
					for k := 0; k < n; k += step {
						evalReadback(Case{Part: "readback", Len: n, Start: 0x13, Pattern: "onehot", K: k, RTU: rtu, Addr: -1}, dev, res, lc)
					}
					evalReadback(Case{Part: "readback", Len: n, Start: 0x13, Pattern: "onehot", K: n - 1, RTU: rtu, Addr: -1}, dev, res, lc)
					evalReadback(Case{Part: "readback", Len: n, Start: 65536 - n, Pattern: "onecold", K: n / 2, RTU: rtu, Addr: -1}, dev, res, lc)
					evalReadback(Case{Part: "readback", Len: n, Start: 0, Pattern: "ones", RTU: rtu, Addr: -1}, dev, res, lc)
					evalReadback(Case{Part: "readback", Len: n, Start: 7, Pattern: "alt", RTU: rtu, Addr: -1}, dev, res, lc)
				}
			}
		})
	}
	var mu sync.Mutex
	var tot local
	ev.Par(len(jobs), runtime.NumCPU(), func(i int) {
		var lc local
		jobs[i](&lc)
		mu.Lock()
		tot.evals += lc.evals
		tot.inside += lc.inside
		mu.Unlock()
	})
	res.Add("evaluations", tot.evals)
	res.DistinctAdd("nontrivial", tot.inside)
	res.Axis("payload length in bytes", map[bool]string{true: "full 1..250", false: "{1,2,3,4,8,125,249,250}"}[thorough], int64(len(lens)))
	res.Axis("one-hot / one-cold bit position", "full (every bit of the payload) for 3 start addresses incl. window ending at 65535", 2000)
	res.Axis("queried address", "every address in [start-2, start+8*len+2] + B16", 2036)
	res.Axis("coil count for write->read-back", map[bool]string{true: "full 1..1968 x every one-hot", false: "1..130 full, then byte boundaries; one-hot stride 13 above 64"}[thorough], 1968)
	res.Sample(Case{Part: "lookup", API: apis[0], Len: 2, Start: 0, Pattern: "onehot", K: 9, Addr: 9})
	res.Sample(Case{Part: "readback", Len: 10, Start: 0x13, Pattern: "onehot", K: 9, Addr: -1})
	res.Sample(Case{Part: "extract", API: "BuilderRequest.ExtractFields", Len: 2, Start: 9, Pattern: "pos"})
}

func replay(check string, raw json.RawMessage, res *ev.Result) {
	if check == "coil-sequence" {
		var c SeqCase
		json.Unmarshal(raw, &c)
		var lc local
		if c.Pattern == "input-intact" {
			inputIntact(res, &lc)
		} else {
			evalLookupSeq(c, res, &lc)
		}
		return
	}
	if check == "coil-built" {
		var c BuiltCase
		json.Unmarshal(raw, &c)
		var lc local
		evalBuilt(c, spec.NewDevice(spec.ImageHash, spec.BitImage), res, &lc)
		return
	}
	var c Case
	json.Unmarshal(raw, &c)
	var lc local
	switch c.Part {
	case "lookup":
		evalLookup(c, res, &lc)
	case "extract":
		evalExtract(c, res, &lc)
	case "readback":
		evalReadback(c, spec.NewDevice(spec.ImageIdentity, func(t, a int) bool { return false }), res, &lc)
	}
}

func main() {
	ev.Main(ev.Spec{
		Property: prop, Level: "exploration",
		Rule: "one-hot / one-cold payloads determine the (byte, bit) mapping completely: every bit position x every queried address for every payload length; write->conforming device->read-back for every coil count. " +
			"non-trivial = lookups inside the payload (value compared with bit i%8 of byte i/8), distinct by construction",
		Assumptions: []string{"the device model (engine/spec/device.go) packs coils LSB-first as §6.1/§6.11 prescribe"},
		Run:         run, Replay: replay,
	})
}
