package main

import (
	"fmt"

	modbus "github.com/aldas/go-modbus-client"
	"github.com/aldas/go-modbus-client/packet"
	"verif/ev"
	"verif/spec"
)

// Coil fields through requests the BUILDER made (they carry the request packet, which hand-assembled BuilderRequests
// do not): the builder's request goes to the reference device, the reply is parsed by the library and every field's
// extracted value must be the device's coil at the field's own address - in particular for the last coils of the
// address space and for requests of the maximum size.

type BuiltCase struct {
	Target int      `json:"target"` // 0 FC1 TCP, 1 FC1 RTU, 2 FC2 TCP, 3 FC2 RTU
	Addrs  []uint16 `json:"coil_addresses"`
}

func evalBuilt(c BuiltCase, dev *spec.Device, res *ev.Result, lc *local) {
	lc.evals++
	bad := func(kind, msg string) {
		res.Violate(ev.Violation{Check: "coil-built", Kind: kind, Attrs: map[string]any{"part": "built"}, Msg: fmt.Sprintf("%+v: %s", c, msg), Case: c})
	}
	b := modbus.NewRequestBuilder("s", 1)
	for i, a := range c.Addrs {
		b.Add(&modbus.BField{Field: modbus.Field{Name: fmt.Sprint(i), ServerAddress: "s", UnitID: 1, Address: a, Type: modbus.FieldTypeCoil}})
	}
	var reqs []modbus.BuilderRequest
	var err error
	pan := ""
	func() {
		defer func() {
			if rec := recover(); rec != nil {
				pan = fmt.Sprint(rec)
			}
		}()
		switch c.Target {
		case 0:
			reqs, err = b.ReadCoilsTCP()
		case 1:
			reqs, err = b.ReadCoilsRTU()
		case 2:
			reqs, err = b.ReadDiscreteInputsTCP()
		default:
			reqs, err = b.ReadDiscreteInputsRTU()
		}
	}()
	if pan != "" || err != nil {
		bad("build-fails", fmt.Sprintf("builder: panic=%q err=%v", pan, err))
		return
	}
	rtu := c.Target%2 == 1
	seen := 0
	for ri, r := range reqs {
		dr, derr := spec.DecodeReq(r.Bytes(), rtu)
		if derr != nil {
			bad("wrong-packet", fmt.Sprintf("request %d does not decode: %v", ri, derr))
			return
		}
		rep := dev.Handle(dr)
		if rep.Exc {
			bad("device-refuses-request", fmt.Sprintf("request %d (%+v): exception %d", ri, dr, rep.ExCode))
			return
		}
		wire := rep.Frame(rtu)
		var resp packet.Response
		var perr error
		if rtu {
			resp, perr = packet.ParseRTUResponseWithCRC(wire)
		} else {
			resp, perr = packet.ParseTCPResponse(wire)
		}
		if perr != nil {
			bad("reply-not-parsed", fmt.Sprintf("request %d: %v", ri, perr))
			return
		}
		var vals []modbus.FieldValue
		var xerr error
		func() {
			defer func() {
				if rec := recover(); rec != nil {
					pan = fmt.Sprint(rec)
				}
			}()
			vals, xerr = r.ExtractFields(resp, false)
		}()
		if pan != "" || xerr != nil {
			bad("extract-fails", fmt.Sprintf("request %d (%+v): ExtractFields: panic=%q err=%v", ri, dr, pan, xerr))
			return
		}
		tbl := dev.Coils
		if dr.FC == 2 {
			tbl = dev.Discrete
		}
		for _, fv := range vals {
			seen++
			got, _ := fv.Value.(bool)
			if fv.Error != nil || got != tbl[fv.Field.Address] {
				// the known finding C11-F1 (payload bytes indexed from the end) shows here too whenever a reply has two or more
				// bytes: such an instance is reported in the form the finding's predicate recognises, anything else as what it is
				data := rep.Data
				i := int(fv.Field.Address) - int(dr.Addr)
				if fv.Error == nil && len(data) >= 2 && i >= 0 && i < 8*len(data) && got == (data[len(data)-1-i/8]&(1<<uint(i%8)) != 0) {
					res.Violate(ev.Violation{Check: "coil", Kind: "wrong-value", Attrs: map[string]any{"part": "built", "payload_len_ge2": true, "explained_by_reversed_byte_order": true, "_api": "Builder+ExtractFields"},
						Msg: fmt.Sprintf("%+v: field at address %d = %v, the device's coil is %v (mirrored byte)", c, fv.Field.Address, got, tbl[fv.Field.Address]), Case: c})
					continue
				}
				bad("wrong-coil", fmt.Sprintf("field at address %d = (%v, %v), the device's coil is %v", fv.Field.Address, fv.Value, fv.Error, tbl[fv.Field.Address]))
				return
			}
		}
	}
	if seen != len(c.Addrs) {
		bad("field-coverage", fmt.Sprintf("%d values for %d fields", seen, len(c.Addrs)))
	}
}

func builtCheck(res *ev.Result, lc *local) {
	dev := spec.NewDevice(spec.ImageHash, spec.BitImage)
	rng := func(a, b int) []uint16 {
		var out []uint16
		for x := a; x <= b; x++ {
			out = append(out, uint16(x))
		}
		return out
	}
	sets := [][]uint16{
		{0}, {65535}, {65534, 65535}, rng(65528, 65535), rng(65520, 65535), rng(0, 17), {7, 8}, {1999}, {0, 1999}, {0, 2000}, {5, 2004}, {5, 2005},
		{63535, 65535}, {63536, 65535}, rng(100, 131), {65535, 0}, {65527, 65535}, {32767, 32768},
	}
	for _, s := range sets {
		for t := 0; t < 4; t++ {
			evalBuilt(BuiltCase{Target: t, Addrs: s}, dev, res, lc)
		}
	}
}
