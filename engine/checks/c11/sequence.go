package main

import (
	"bytes"
	"fmt"

	"github.com/aldas/go-modbus-client/packet"
	"verif/ev"
	"verif/lib"
)

// Lookups on ONE response object, one after the other (also lookups that fail): every lookup must return what it returns
// on a fresh response, and the response's payload must stay what it was. (Differential on purpose: it holds whatever
// the lookup's own idea of the bit layout is, so the known finding C11-F1 does not interfere.)

type SeqCase struct {
	Len     int    `json:"payload_len"`
	Pattern string `json:"pattern"`
	K       int    `json:"k"`
	Start   int    `json:"start"`
	Addrs   []int  `json:"addresses"`
}

func evalLookupSeq(c SeqCase, res *ev.Result, lc *local) {
	lc.evals++
	data := lib.Pattern(c.Pattern, c.Len, c.K)
	orig := append([]byte(nil), data...)
	one := &packet.ReadCoilsResponseTCP{ReadCoilsResponse: packet.ReadCoilsResponse{UnitID: 1, CoilsByteLength: uint8(c.Len), Data: data}}
	bad := func(kind, msg string) {
		res.Violate(ev.Violation{Check: "coil-sequence", Kind: kind, Attrs: map[string]any{"part": "sequence"}, Msg: fmt.Sprintf("%+v: %s", c, msg), Case: c})
	}
	for i, a := range c.Addrs {
		fresh := &packet.ReadCoilsResponseTCP{ReadCoilsResponse: packet.ReadCoilsResponse{UnitID: 1, CoilsByteLength: uint8(c.Len), Data: append([]byte(nil), orig...)}}
		var g1, g2 bool
		var e1, e2 error
		pan := ""
		func() {
			defer func() {
				if rec := recover(); rec != nil {
					pan = fmt.Sprint(rec)
				}
			}()
			g2, e2 = fresh.IsCoilSet(uint16(c.Start), uint16(a))
			g1, e1 = one.IsCoilSet(uint16(c.Start), uint16(a))
		}()
		if pan != "" {
			bad("panic", "lookup panicked: "+pan)
			return
		}
		if g1 != g2 || (e1 == nil) != (e2 == nil) {
			bad("lookup-depends-on-history", fmt.Sprintf("lookup %d (address %d) after %v returns (%v, %v); on a fresh response it returns (%v, %v)", i, a, c.Addrs[:i], g1, e1, g2, e2))
			return
		}
		if !bytes.Equal(one.Data, orig) {
			bad("payload-changed", fmt.Sprintf("after lookups %v the payload is %x, it was %x", c.Addrs[:i+1], one.Data, orig))
			return
		}
	}
}

func lookupSequences(res *ev.Result, lc *local) {
	for _, L := range []int{1, 2, 3, 5, 8} {
		n := 8 * L
		for _, start := range []int{0, 100, 65536 - n} {
			beyond := start + n
			before := start - 1
			for _, pat := range []string{"pos", "onehot", "alt"} {
				k := n - 3
				var seqs [][]int
				seqs = append(seqs, []int{start, start + n - 1, start + 1})
				if beyond <= 65535 {
					seqs = append(seqs, []int{beyond, start, start + n - 1, start + 9%n}, []int{start + 1, beyond, start + 1, beyond, beyond, start + n - 2})
				}
				if before >= 0 {
					seqs = append(seqs, []int{before, start, start + n - 1}, []int{start + 2, before, start + 2})
				}
				if beyond <= 65535 && before >= 0 {
					seqs = append(seqs, []int{beyond, before, beyond, start + n/2, start})
				}
				for _, s := range seqs {
					evalLookupSeq(SeqCase{Len: L, Pattern: pat, K: k, Start: start, Addrs: s}, res, lc)
				}
			}
		}
	}
}

// The caller's coil slice belongs to the caller: packing it (directly or through the FC15 constructors) must not write
// into it - not beyond its length into the backing array either.
func inputIntact(res *ev.Result, lc *local) {
	for n := 1; n <= 41; n++ {
		for _, fill := range []bool{true, false} {
			lc.evals++
			big := make([]bool, 64)
			for i := range big {
				big[i] = fill != (i%5 == 0)
			}
			orig := append([]bool(nil), big...)
			sub := big[:n]
			_ = packet.CoilsToBytes(sub)
			_, _ = packet.NewWriteMultipleCoilsRequestTCP(1, 10, sub)
			_, _ = packet.NewWriteMultipleCoilsRequestRTU(1, 10, sub)
			for i := range big {
				if big[i] != orig[i] {
					res.Violate(ev.Violation{Check: "coil-sequence", Kind: "caller-slice-written", Attrs: map[string]any{"part": "input"},
						Msg:  fmt.Sprintf("packing %d coils (a sub-slice of a 64-element array) changed element %d of the caller's array from %v to %v", n, i, orig[i], big[i]),
						Case: SeqCase{Len: n, Pattern: "input-intact"}})
					return
				}
			}
		}
	}
}
