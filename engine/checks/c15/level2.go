package main

// Level 2 of C15: the same streams sent through the real server.Server (connection loop, read buffer of 300 bytes,
// assembler, write-back) over the in-memory network under the cooperative scheduler. The segmentation is the sequence of
// client writes; in "settle" mode the client lets the server come to rest after every chunk and checks that exactly the
// replies of the completed requests have arrived (nothing early, nothing missing); in "racing" mode it only waits until
// the server has taken the chunk out of the connection, so the next chunk can arrive while the previous one is being
// processed. All schedules with at most d deviations are explored per (stream, segmentation, mode).

import (
	"encoding/hex"
	"fmt"
	"os"

	"github.com/aldas/go-modbus-client/verifshim/vsched"
	"verif/ev"
	"verif/explore"
	"verif/serverx"
	"verif/srvx"
)

type Case2 struct {
	Scenario srvx.Scenario `json:"scenario"`
	Budget   int           `json:"budget"`
	Choices  []int         `json:"choices"`
}

func scenarioFor(s stream, names []string, cuts []int, mode string) srvx.Scenario {
	ref, _ := reference(s)
	ops := []string{"dial"}
	bounds := append(append([]int{}, cuts...), len(s.bytes))
	pos := 0
	for _, b := range bounds {
		ops = append(ops, "write:"+hex.EncodeToString(s.bytes[pos:b]))
		pos = b
		if mode == "settle" {
			due := 0
			for i, e := range s.ends {
				if e <= pos {
					due += len(ref[i])
				}
			}
			ops = append(ops, "quiesce", fmt.Sprintf("check:%d", due))
		} else {
			ops = append(ops, "drain")
		}
	}
	var exp []string
	for _, r := range ref {
		if len(r) > 0 {
			exp = append(exp, hex.EncodeToString(r))
		}
	}
	ops = append(ops, fmt.Sprintf("recvall:%d", len(exp)), "close")
	if exp == nil {
		exp = []string{}
	}
	return srvx.Scenario{Name: fmt.Sprintf("L2/%s/%v/cuts%v", mode, names, cuts), Handler: "instant", Control: "none", Clients: [][]string{ops}, Expect: [][]string{exp}}
}

func level2(tier string, shard, nsh int, res *ev.Result) {
	thorough := tier == "thorough"
	cat := serverx.Catalogue(0x4000)
	type job struct {
		sc     srvx.Scenario
		budget int
	}
	var jobs []job
	// (a) one 12-byte request: every one of the 2^11 segmentations
	one := mkStream(byName(cat, []string{"fc3"}))
	n := len(one.bytes)
	for mask := 0; mask < 1<<(n-1); mask++ {
		var cuts []int
		for i := 1; i < n; i++ {
			if mask&(1<<(i-1)) != 0 {
				cuts = append(cuts, i)
			}
		}
		jobs = append(jobs, job{scenarioFor(one, []string{"fc3"}, cuts, "settle"), 1})
	}
	// (b) pairs: every segmentation with <= 1 (thorough <= 2) cuts, settle and racing
	small := []string{"fc3", "fc16", "fc6", "unsupported-fc", "qty-out-of-range", "fc3-refused"}
	for _, a := range small {
		for _, b := range small {
			names := []string{a, b}
			s := mkStream(byName(cat, names))
			L := len(s.bytes)
			for _, mode := range []string{"settle", "racing"} {
				jobs = append(jobs, job{scenarioFor(s, names, nil, mode), 1})
				for c1 := 1; c1 < L; c1++ {
					d := 1
					if thorough && (c1 == 7 || c1 == 8 || c1 == s.ends[0]-1 || c1 == s.ends[0] || c1 == s.ends[0]+1 || c1 == s.ends[0]+8) {
						d = 2
					}
					jobs = append(jobs, job{scenarioFor(s, names, []int{c1}, mode), d})
					if thorough {
						for c2 := c1 + 1; c2 < L; c2++ {
							jobs = append(jobs, job{scenarioFor(s, names, []int{c1, c2}, mode), 1})
						}
					}
				}
			}
		}
	}
	// (c) many small pieces: every catalogue frame up to 40 bytes byte by byte, the longest frames in 13- and 7-byte pieces
	// (a reassembly that only copes with "a request arrives in a few reads" shows here)
	for _, f := range cat {
		s := mkStream([]serverx.Frame{f})
		L := len(s.bytes)
		var sizes []int
		if L <= 40 {
			sizes = []int{1, 2}
		} else if L > 200 {
			sizes = []int{13, 7}
		} else {
			continue
		}
		for _, sz := range sizes {
			var cuts []int
			for c := sz; c < L; c += sz {
				cuts = append(cuts, c)
			}
			for _, mode := range []string{"settle", "racing"} {
				jobs = append(jobs, job{scenarioFor(s, []string{f.Name}, cuts, mode), 1})
			}
		}
	}
	// (d) a client that sends far ahead: 25, 26 and 30 requests (300, 312, 360 bytes - the server reads 300 bytes at a
	// time) in one write, and in two writes cut in the middle of a request
	for _, cnt := range []int{25, 26, 30} {
		var fs []serverx.Frame
		var names []string
		for i := 0; i < cnt; i++ {
			f := serverx.Catalogue(uint16(0x5000 + 0x20*i))[5] // fc6, 12 bytes, distinct transaction ids
			fs = append(fs, f)
			names = append(names, f.Name)
		}
		s := mkStream(fs)
		short := []string{fmt.Sprintf("%dx fc6", cnt)}
		jobs = append(jobs, job{scenarioFor(s, short, nil, "racing"), 1})
		jobs = append(jobs, job{scenarioFor(s, short, []int{len(s.bytes)/2 + 5}, "racing"), 1})
		jobs = append(jobs, job{scenarioFor(s, short, []int{299}, "settle"), 0})
	}
	// (e) a pause between the two halves of a request (the reassembly must not depend on how much time passes)
	for _, ms := range []int{60, 6000} {
		sc := scenarioFor(one, []string{"fc3"}, []int{8}, "settle")
		var ops []string
		for _, op := range sc.Clients[0] {
			ops = append(ops, op)
			if len(ops) == 4 { // dial, write, quiesce, check  -> pause here
				ops = append(ops, fmt.Sprintf("sleep:%d", ms))
			}
		}
		sc.Clients[0] = ops
		sc.Name = fmt.Sprintf("L2/pause-%dms/[fc3]/cuts[8]", ms)
		jobs = append(jobs, job{sc, 1})
	}
	// (f) the same with the server's DEFAULT read timeout (5 ms): every request of up to 40 bytes cut once at every
	// position, with 12 ms of silence between the halves - the read loop times out a few times while half a request is
	// buffered (whatever it does on a timeout must not touch what has been received)
	for _, f := range cat {
		s := mkStream([]serverx.Frame{f})
		L := len(s.bytes)
		if L > 40 {
			continue
		}
		for c1 := 1; c1 < L; c1++ {
			if !thorough && c1 != 1 && c1 != 6 && c1 != 7 && c1 != 8 && c1 != L-1 {
				continue
			}
			sc := scenarioFor(s, []string{f.Name}, []int{c1}, "settle")
			var ops []string
			for _, op := range sc.Clients[0] {
				ops = append(ops, op)
				if len(ops) == 4 {
					ops = append(ops, "sleep:12")
				}
			}
			sc.Clients[0] = ops
			sc.ReadTimeout = "default"
			sc.Name = fmt.Sprintf("L2/pause-12ms-default-timeout/[%s]/cuts[%d]", f.Name, c1)
			jobs = append(jobs, job{sc, 0})
		}
	}
	// (g) bursts sized by what the server has to buffer and to send: 3 and 4 requests with the largest reply / of the
	// largest size in one write and cut inside the second request
	for _, name := range []string{"fc3-max", "fc16-max"} {
		for _, cnt := range []int{3, 4} {
			var fs []serverx.Frame
			for i := 0; i < cnt; i++ {
				for _, f := range serverx.Catalogue(uint16(0x6000 + 0x20*i)) {
					if f.Name == name {
						fs = append(fs, f)
					}
				}
			}
			s := mkStream(fs)
			short := []string{fmt.Sprintf("%dx %s", cnt, name)}
			jobs = append(jobs, job{scenarioFor(s, short, nil, "racing"), 1})
			jobs = append(jobs, job{scenarioFor(s, short, nil, "settle"), 0})
			jobs = append(jobs, job{scenarioFor(s, short, []int{s.ends[0] + 5}, "racing"), 1})
		}
	}
	// (h) two connections: A's request arrives in two fragments and B's whole exchange happens in between (what the server
	// keeps for A between the fragments must be A's own: reassembly state is per connection)
	for _, f := range cat {
		st := mkStream([]serverx.Frame{f})
		L := len(st.bytes)
		if L > 40 {
			continue
		}
		for _, c1 := range []int{1, 7, 8, L - 1} {
			if c1 < 1 || c1 >= L {
				continue
			}
			ref, _ := reference(st)
			var exp []string
			for _, r := range ref {
				if len(r) > 0 {
					exp = append(exp, hex.EncodeToString(r))
				}
			}
			if exp == nil {
				exp = []string{}
			}
			a := []string{"dial", "write:" + hex.EncodeToString(st.bytes[:c1]), "sleep:20", "write:" + hex.EncodeToString(st.bytes[c1:]), fmt.Sprintf("recvall:%d", len(exp)), "close"}
			b := []string{"sleep:10", "dial", "send", "recv", "close"}
			sc := srvx.Scenario{Name: fmt.Sprintf("L2/two-connections/[%s]/cuts[%d]", f.Name, c1), Handler: "instant", Control: "none",
				Clients: [][]string{a, b}, Expect: [][]string{exp}}
			jobs = append(jobs, job{sc, 1})
		}
	}
	var execs, steps, newSteps int64
	outcomes := map[string]struct{}{}
	for i, j := range jobs {
		if i%nsh != shard {
			continue
		}
		body := func(x *explore.Ctx) {
			r := srvx.Run(j.sc, vsched.Config{Choose: x.Choose, Budget: j.budget, TimeFirst: true, MaxSteps: 20000})
			if r.Out.Hung {
				fmt.Printf("INCONCLUSIVE property=%s watchdog: an execution of %s stopped reaching scheduling points\n", prop, j.sc.Name)
				os.Exit(3)
			}
			execs++
			steps += int64(r.Out.Steps)
			shared := 0
			if p := x.PrefixLen(); p > 0 && p <= len(r.Out.ChoiceSteps) {
				shared = r.Out.ChoiceSteps[p-1]
			}
			newSteps += int64(r.Out.Steps - shared)
			outcomes[r.Summary] = struct{}{}
			for _, v := range r.V {
				attrs := map[string]any{"level": 2}
				for k, val := range v.Attrs {
					attrs[k] = val
				}
				res.Violate(ev.Violation{Check: "server-loop", Kind: v.Kind, Attrs: attrs,
					Msg:  fmt.Sprintf("%s d<=%d choices=%v: %s", j.sc.Name, j.budget, x.Choices(), v.Msg),
					Case: Case2{Scenario: j.sc, Budget: j.budget, Choices: x.Choices()}})
			}
		}
		explore.Explore(body, 0)
	}
	res.Add("evaluations", execs)
	res.Add("executions", execs)
	res.Add("l2_executions", execs)
	res.Add("l2_steps", steps)
	res.Add("l2_tree_nodes", newSteps)
	res.DistinctAdd("nontrivial", execs)
	for o := range outcomes {
		res.Seen("l2_outcomes", []byte(o))
	}
	if shard == 0 {
		res.Add("l2_scenarios", int64(len(jobs)))
		res.Axis("level 2: (stream, segmentation, client mode) scenarios through server.Server", "all 2^11 segmentations of one FC3 request; pairs over 5 frames x every <=1 (thorough <=2) cut x settle/racing", int64(len(jobs)))
		res.Sample(map[string]any{"level": 2, "scenario": jobs[len(jobs)/3].sc})
	}
}
