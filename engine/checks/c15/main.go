// C15 — the TCP server answers each request once and in order, whatever the segmentation.
// Level 1: the real ModbusTCPAssembler.ReceiveRead driven directly by a stateless DFS over segmentations of streams of
// 1..3 request frames (lock-step and pipelined clients). Level 2 (connection loop under the scheduler) lives in level2.go.
package main

import (
	"bytes"
	"context"
	"encoding/json"
	"fmt"
	"os"
	"runtime"
	"sync"
	"sync/atomic"
	"time"

	"github.com/aldas/go-modbus-client/server"
	"verif/ev"
	"verif/explore"
	"verif/serverx"
	"verif/srvx"

	"github.com/aldas/go-modbus-client/verifshim/vsched"
)

const prop = "C15"

type Case struct {
	Frames    []string `json:"frames"` // catalogue names
	Pipelined bool     `json:"pipelined"`
	Cuts      int      `json:"cut_budget"`
	Chunk     int      `json:"chunk,omitempty"` // fixed delivery size (long streams; no cut choices)
	Choices   []int    `json:"choices"`
}

type stream struct {
	frames []serverx.Frame
	bytes  []byte
	ends   []int // cumulative end offsets
}

func mkStream(fs []serverx.Frame) stream {
	s := stream{frames: fs}
	for _, f := range fs {
		s.bytes = append(s.bytes, f.Bytes...)
		s.ends = append(s.ends, len(s.bytes))
	}
	return s
}

// useSched: set once the assembler has been seen starting goroutines (see receive)
var useSched int32

type needSched struct{}

func receive(a *server.ModbusTCPAssembler, chunk []byte) (resp []byte, closeConn bool, pan string) {
	defer func() {
		if rec := recover(); rec != nil {
			if _, again := rec.(needSched); again {
				panic(rec)
			}
			pan = fmt.Sprint(rec)
		}
	}()
	if atomic.LoadInt32(&useSched) == 0 {
		// fast path: a plain call. Should the assembler start a goroutine of its own (vsched.FreeGo moves), the result of
		// this evaluation is not trusted: the evaluation is abandoned (needSched) and repeated under the scheduler, which
		// from then on runs every call of this process
		g0 := atomic.LoadInt64(&vsched.FreeGo)
		func() {
			defer func() {
				if rec := recover(); rec != nil {
					pan = fmt.Sprint(rec)
				}
			}()
			resp, closeConn = a.ReceiveRead(context.Background(), chunk, len(chunk))
		}()
		if atomic.LoadInt64(&vsched.FreeGo) == g0 {
			return
		}
		// the assembler started a goroutine although probeGoroutines (run first) saw none: those goroutines are running free
		// next to whatever the other workers of this process do - nothing in this process can be trusted any more
		fmt.Printf("INCONCLUSIVE property=%s the assembler started goroutines on a path the start-up probe did not take\n", prop)
		os.Exit(3)
	}
	// under the scheduler's default schedule (no deviations): should the assembler start goroutines of its own they run
	// in a fixed order instead of racing freely (the process level explores their interleavings)
	out := vsched.Run(vsched.Config{Choose: func(n int, label string) int { return 0 }}, func() {
		defer func() {
			if rec := recover(); rec != nil {
				pan = fmt.Sprint(rec)
			}
		}()
		resp, closeConn = a.ReceiveRead(context.Background(), chunk, len(chunk))
	})
	if out.Crash != "" && pan == "" {
		pan = out.Crash // a panic in a goroutine the assembler started
	}
	if out.Deadlock && pan == "" {
		pan = fmt.Sprintf("deadlock inside ReceiveRead: %v", out.Blocked)
	}
	return
}

// reference: the replies obtained by giving each frame whole to a fresh assembler (device state carries over).
func reference(s stream) (replies [][]byte, calls int) {
	h := &serverx.Handler{Dev: serverx.NewDevice(), Mode: "device"}
	for _, f := range s.frames {
		a := &server.ModbusTCPAssembler{Handler: h}
		r, _, _ := receive(a, append([]byte(nil), f.Bytes...))
		replies = append(replies, r)
	}
	return replies, len(h.Calls)
}

type local struct {
	execs, points, reads, nontrivial int64
	states                           map[string]struct{}
}

func runStream(s stream, base Case, res *ev.Result, lc *local) {
	ref, refCalls := reference(s)
	var validFrames [][]byte
	for _, f := range s.frames {
		if f.Valid {
			validFrames = append(validFrames, f.Bytes)
		}
	}
	_ = refCalls
	names := base.Frames
	body := func(x *explore.Ctx) {
		x.SetBudget("cut", base.Cuts)
		h := &serverx.Handler{Dev: serverx.NewDevice(), Mode: "device"}
		a := &server.ModbusTCPAssembler{Handler: h}
		pos := 0
		var got []byte
		c := base
		fail := func(kind, msg string, attrs map[string]any) {
			c.Choices = x.Choices()
			if attrs == nil {
				attrs = map[string]any{}
			}
			attrs["pipelined"] = base.Pipelined
			attrs["nframes"] = len(s.frames)
			res.Violate(ev.Violation{Check: "assembler", Kind: kind, Attrs: attrs, Msg: fmt.Sprintf("frames %v pipelined=%v choices=%v: %s", names, base.Pipelined, c.Choices, msg), Case: c})
		}
		frameIdx := 0
		for pos < len(s.bytes) {
			limit := len(s.bytes)
			if !base.Pipelined {
				// lock-step: never send past the end of the frame currently being answered
				for frameIdx < len(s.ends) && s.ends[frameIdx] <= pos {
					frameIdx++
				}
				limit = s.ends[frameIdx]
			}
			r := limit - pos
			n := r
			if base.Chunk > 0 && n > base.Chunk {
				n = base.Chunk // fixed-size delivery (long streams): no choice
			}
			if base.Chunk == 0 && x.Left("cut") > 0 && r > 1 {
				if i := x.Choose(r, "chunk"); i > 0 {
					n = i
					x.Spend("cut")
				}
			}
			chunk := append([]byte(nil), s.bytes[pos:pos+n]...)
			pos += n
			resp, closeConn, pan := receive(a, chunk)
			lc.reads++
			if pan != "" {
				fail("panic", fmt.Sprintf("ReceiveRead panicked after %d bytes: %s", pos, pan), nil)
				return
			}
			if closeConn {
				fail("close-connection", fmt.Sprintf("closeConnection set after %d bytes", pos), nil)
				return
			}
			got = append(got, resp...)
			// prefix-exact oracle
			var want []byte
			complete := 0
			for i, e := range s.ends {
				if e <= pos {
					want = append(want, ref[i]...)
					complete++
				}
			}
			if !bytes.Equal(got, want) {
				kind := "wrong-replies"
				switch {
				case len(got) > len(want) && bytes.HasPrefix(got, want):
					kind = "reply-before-request-complete"
					if complete == len(s.ends) {
						kind = "extra-reply"
					}
				case len(got) < len(want) && bytes.HasPrefix(want, got):
					kind = "request-unanswered-after-read"
				}
				late := ""
				if kind == "request-unanswered-after-read" && pos == len(s.bytes) {
					// would it answer on the next (unrelated) read?
					r2, _, _ := receive(a, nil)
					if bytes.Equal(append(append([]byte(nil), got...), r2...), want) {
						late = " (the missing reply appears only on the next read)"
					} else {
						late = " (and an empty poll does not produce it either)"
					}
				}
				fail(kind, fmt.Sprintf("after %d of %d stream bytes (%d frames complete) replies so far = %s, reference = %s%s", pos, len(s.bytes), complete, ev.Hex(got), ev.Hex(want), late),
					map[string]any{"chunk_spans_frames": base.Pipelined && spans(s, pos-n, pos)})
				return
			}
			lc.states[fmt.Sprintf("%d/%d/%d", len(s.frames), complete, len(chunk))] = struct{}{}
		}
		// handler log: one call per valid frame, in order
		if len(h.Calls) != len(validFrames) {
			fail("handler-call-count", fmt.Sprintf("handler called %d times for %d valid frames", len(h.Calls), len(validFrames)), nil)
			return
		}
		for i, cl := range h.Calls {
			if !bytes.Equal(cl.Frame, validFrames[i]) {
				fail("handler-call-order", fmt.Sprintf("handler call %d received %x, want %x", i, cl.Frame, validFrames[i]), nil)
				return
			}
		}
		if x.Deviations() > 0 {
			lc.nontrivial++
		}
	}
	st := explore.Explore(body, 0)
	lc.execs += st.Executions
	lc.points += st.Points
}

func spans(s stream, from, to int) bool {
	for _, e := range s.ends {
		if e > from && e < to {
			return true
		}
	}
	return false
}

func byName(cat []serverx.Frame, names []string) []serverx.Frame {
	var out []serverx.Frame
	for _, n := range names {
		for _, f := range cat {
			if f.Name == n {
				out = append(out, f)
			}
		}
	}
	return out
}

func run(tier string, shard, nsh int, res *ev.Result) {
	probeGoroutines()
	thorough := tier == "thorough"
	cat := serverx.Catalogue(0x4000)
	type job struct {
		names []string
		pipe  bool
		cuts  int
	}
	var jobs []job
	for _, pipe := range []bool{false, true} {
		for _, f := range cat {
			n := len(f.Bytes)
			cuts := 3
			if n <= 18 {
				cuts = n // all 2^(n-1) cut sets
			} else if !thorough {
				cuts = 2
			}
			if pipe {
				continue // a single frame is the same under both disciplines
			}
			jobs = append(jobs, job{[]string{f.Name}, pipe, cuts})
		}
		for _, f := range cat {
			for _, g := range cat {
				n := len(f.Bytes) + len(g.Bytes)
				cuts := 2
				if thorough && n <= 60 {
					cuts = 3
				}
				if n > 200 {
					cuts = 1
					if thorough {
						cuts = 2
					}
				}
				jobs = append(jobs, job{[]string{f.Name, g.Name}, pipe, cuts})
			}
		}
		small := []string{"fc3", "fc5", "fc16", "fc17", "fc23", "unsupported-fc", "qty-out-of-range", "bytecount-inconsistent", "fc3-refused"}
		if !thorough {
			small = []string{"fc3", "fc16", "fc17", "unsupported-fc", "fc3-refused"}
		}
		for _, a := range small {
			for _, b := range small {
				for _, c := range small {
					jobs = append(jobs, job{[]string{a, b, c}, pipe, 2})
				}
			}
		}
		// bursts sized by what they make the server BUFFER or SEND, not by their number of frames: k requests with the
		// largest reply (259 bytes each), alone and surrounded by small ones; k requests of the largest size (259 bytes each)
		big := func(name string, k int) []string {
			var out []string
			for i := 0; i < k; i++ {
				out = append(out, name)
			}
			return out
		}
		for k := 3; k <= 6; k++ {
			for _, name := range []string{"fc3-max", "fc16-max"} {
				if k > 4 && !thorough && name == "fc16-max" {
					continue
				}
				jobs = append(jobs, job{big(name, k), pipe, 1})
			}
		}
		for _, x := range []string{"fc3", "fc16", "unsupported-fc", "fc3-refused"} {
			jobs = append(jobs, job{append(big("fc3-max", 2), x), pipe, 1})
			jobs = append(jobs, job{append([]string{x}, big("fc3-max", 2)...), pipe, 1})
			jobs = append(jobs, job{append(append([]string{x}, big("fc3-max", 2)...), x), pipe, 1})
			jobs = append(jobs, job{append(big("fc16-max", 2), x), pipe, 1})
		}
	}
	// long runs on ONE assembler (state that accumulates from request to request): 320 requests cycling through the whole
	// catalogue, lock-step and sent ahead in pieces of 7, 300 and 1000 bytes
	var marathon []string
	for i := 0; i < 320; i++ {
		marathon = append(marathon, cat[(i*7+i/16)%len(cat)].Name)
	}
	jobs = append(jobs, job{marathon, false, 0})
	for _, sz := range []int{7, 300, 1000} {
		jobs = append(jobs, job{marathon, true, -sz})
	}
	var mu sync.Mutex
	tot := &local{states: map[string]struct{}{}}
	ev.Par(len(jobs), runtime.NumCPU(), func(i int) {
		if i%nsh != shard {
			return
		}
		j := jobs[i]
		lc := &local{states: map[string]struct{}{}}
		c := Case{Frames: j.names, Pipelined: j.pipe, Cuts: j.cuts}
		if j.cuts < 0 {
			c.Cuts, c.Chunk = 0, -j.cuts
		}
		retryUnderSched(func() { runStream(mkStream(byName(cat, j.names)), c, res, lc) })
		mu.Lock()
		tot.execs += lc.execs
		tot.points += lc.points
		tot.reads += lc.reads
		tot.nontrivial += lc.nontrivial
		for k := range lc.states {
			tot.states[k] = struct{}{}
		}
		mu.Unlock()
	})
	res.Add("evaluations", tot.execs)
	res.Add("executions", tot.execs)
	res.Add("choice_points", tot.points)
	res.Add("receive_read_calls", tot.reads)
	if shard == 0 {
		res.Add("streams", int64(len(jobs)))
	}
	level2(tier, shard, nsh, res)
	res.DistinctAdd("nontrivial", tot.nontrivial)
	for k := range tot.states {
		res.Seen("states", []byte(k))
	}
	if shard != 0 {
		return
	}
	res.Axis("frame catalogue", "10 valid functions + 3 boundary-size valid + unsupported fc + out-of-range quantity + inconsistent byte count", int64(len(cat)))
	res.Axis("stream", "every single frame, every ordered pair, triples over a reduced catalogue; lock-step and pipelined", int64(len(jobs)))
	res.Axis("segmentation", "all 2^(n-1) cut sets for single frames <=18 bytes; <=2 (thorough <=3) cuts at all positions otherwise", 0)
	res.Sample(Case{Frames: []string{"fc3"}, Cuts: 12, Choices: []int{8, 2}})
	res.Sample(Case{Frames: []string{"fc16", "fc3"}, Pipelined: true, Cuts: 2, Choices: []int{20}})
}

func replay(check string, raw json.RawMessage, res *ev.Result) {
	probeGoroutines()
	if check == "server-loop" {
		var c Case2
		json.Unmarshal(raw, &c)
		explore.Replay(func(x *explore.Ctx) {
			r := srvx.Run(c.Scenario, vsched.Config{Choose: x.Choose, Budget: c.Budget, TimeFirst: true, Trace: true, MaxSteps: 20000})
			for _, st := range r.Out.Trace {
				fmt.Printf("  thread %d: %s\n", st.Thread, st.Label)
			}
			for _, v := range r.V {
				res.Violate(ev.Violation{Check: check, Kind: v.Kind, Attrs: v.Attrs, Msg: v.Msg, Case: c})
			}
		}, c.Choices)
		return
	}
	var c Case
	json.Unmarshal(raw, &c)
	cat := serverx.Catalogue(0x4000)
	lc := &local{states: map[string]struct{}{}}
	// replay = explore restricted to the recorded choice sequence
	s := mkStream(byName(cat, c.Frames))
	_ = s
	// run the whole (small) exploration and keep only violations; simplest faithful replay
	runStream(s, Case{Frames: c.Frames, Pipelined: c.Pipelined, Cuts: c.Cuts}, res, lc)
}

func main() {
	ev.Main(ev.Spec{
		Property: prop, Level: "model_checking",
		Rule: "stateless DFS over segmentations (default: deliver everything the client discipline allows; deviation: deliver only the next k bytes, every k) of streams of 1..3 catalogue frames on the real ModbusTCPAssembler; " +
			"after every read the replies so far must equal the whole-frame replies of exactly the frames completed so far; handler called once per valid frame, in order",
		Assumptions: []string{"reference replies = the same frames given whole to fresh assemblers (device state carries over between frames)", "streams longer than 3 frames / more than 3 cuts are not explored"},
		Run:         run, Replay: replay,
		Shards:     func(tier string) int { return 16 },
		ShardProcs: 1,
		Finish: func(tier string, res *ev.Result, cov map[string]any) {
			cov["states"] = res.Distinct["states"]
			cov["transitions"] = res.Counters["receive_read_calls"] + res.Counters["l2_steps"]
			cov["traces_validated_against_impl"] = res.Counters["executions"]
			cov["state_definition"] = "(frames in stream, frames completed, size of the chunk just delivered) tuples observed"
		},
	})
}

// retryUnderSched runs f; if f is abandoned because the assembler turned out to start goroutines (needSched), f is run
// again - this time, and from now on, every ReceiveRead call goes through the scheduler.
func retryUnderSched(f func()) {
	again := false
	func() {
		defer func() {
			if rec := recover(); rec != nil {
				if _, ok := rec.(needSched); ok {
					again = true
					return
				}
				panic(rec)
			}
		}()
		f()
	}()
	if again {
		f()
	}
}

// probeGoroutines runs before anything else: a few representative reads (one request, two and three requests completed
// by one read, a refused request, a request in two reads) go through a throw-away assembler on the plain path. If the
// assembler starts goroutines of its own (vsched.FreeGo moves) every ReceiveRead call of this process is made under the
// scheduler's default schedule instead (useSched) - a decision taken once, before any worker runs, because a goroutine
// started outside an execution must never meet an installed one.
func probeGoroutines() {
	g0 := atomic.LoadInt64(&vsched.FreeGo)
	cat := serverx.Catalogue(0x7000)
	byN := func(name string) []byte {
		for _, f := range cat {
			if f.Name == name {
				return append([]byte(nil), f.Bytes...)
			}
		}
		panic(name)
	}
	streams := [][][]byte{
		{byN("fc3")},
		{append(byN("fc3"), byN("fc16")...)},
		{append(append(byN("fc3"), byN("fc6")...), byN("fc1")...)},
		{append(byN("unsupported-fc"), byN("fc3")...)},
		{append(byN("fc3-refused"), byN("fc3-refused")...)},
		{byN("fc3")[:5], byN("fc3")[5:]},
		{append(byN("fc3-max"), byN("fc3-max")...), byN("fc3")},
	}
	for _, st := range streams {
		h := &serverx.Handler{Dev: serverx.NewDevice(), Mode: "device"}
		a := &server.ModbusTCPAssembler{Handler: h}
		for _, chunk := range st {
			func() {
				defer func() { recover() }()
				a.ReceiveRead(context.Background(), chunk, len(chunk))
			}()
		}
	}
	time.Sleep(50 * time.Millisecond) // whatever was started has long finished (instant handler)
	if atomic.LoadInt64(&vsched.FreeGo) != g0 {
		atomic.StoreInt32(&useSched, 1)
	}
}
