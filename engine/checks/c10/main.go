// C10 — no parser panics or reads past its input, for any byte string.
// Part 1: every byte string of length 0..3 to every entry point. Part 2: structured space (every length 0..320 of
// truncated / extended valid frames, header-consistent and inconsistent, with one-at-a-time sweeps of offsets 0..20).
// Every input is presented with exact capacity and as a prefix of two differently poisoned larger buffers.
package main

import (
	"bytes"
	"encoding/hex"
	"encoding/json"
	"fmt"
	"go/ast"
	"go/parser"
	"go/token"
	"os"
	"path/filepath"
	"runtime"
	"sort"
	"strings"
	"sync"

	"github.com/aldas/go-modbus-client/packet"
	"verif/ev"
	"verif/lib"
	"verif/spec"
)

const prop = "C10"

type Case struct {
	Entry string `json:"entry"`
	Data  string `json:"data_hex"`
}

type local struct {
	evals, calls, parsedOK int64
	exact, pa, pb          []byte
}

func newLocal() *local {
	l := &local{exact: make([]byte, 70000), pa: make([]byte, 70000+64), pb: make([]byte, 70000+64)}
	return l
}

func call(p *lib.Parser, b []byte) (v any, err error, pan string) {
	defer func() {
		if rec := recover(); rec != nil {
			pan = fmt.Sprint(rec)
		}
	}()
	v, err = p.F(b)
	return
}

func lenClass(n int) string {
	switch {
	case n < 4:
		return "0..3"
	case n < 8:
		return "4..7"
	case n < 13:
		return "8..12"
	case n < 18:
		return "13..17"
	case n <= 260:
		return "18..260"
	}
	return ">260"
}

func evalInput(p *lib.Parser, in []byte, res *ev.Result, lc *local) {
	lc.evals++
	n := len(in)
	ex := lc.exact[:n:n]
	copy(ex, in)
	a := lc.pa[: n : n+64]
	for i := n; i < n+64; i++ {
		lc.pa[i] = 0xA5
	}
	copy(a, in)
	b := lc.pb[: n : n+64]
	for i := n; i < n+64; i++ {
		lc.pb[i] = 0x5A
	}
	copy(b, in)
	v1, e1, p1 := call(p, ex)
	v2, e2, p2 := call(p, a)
	v3, e3, p3 := call(p, b)
	lc.calls += 3
	attrs := map[string]any{"entry": p.Name, "len_class": lenClass(n), "_len": n}
	mk := func() Case { return Case{Entry: p.Name, Data: hex.EncodeToString(in)} }
	if p1 != "" || p2 != "" || p3 != "" {
		pm := p1
		if pm == "" {
			pm = p2 + p3 + " (only with spare capacity)"
		}
		res.Violate(ev.Violation{Check: "parse", Kind: "panic", Attrs: attrs, Msg: fmt.Sprintf("%s(%s) panics: %s", p.Name, ev.Hex(in), pm), Case: mk()})
		if p1 != "" && p2 == "" {
			res.Violate(ev.Violation{Check: "parse", Kind: "depends-on-capacity", Attrs: attrs,
				Msg: fmt.Sprintf("%s(%s): panics with exact capacity but returns (%v, %v) when spare capacity holds 0xA5", p.Name, ev.Hex(in), v2, e2), Case: mk()})
		}
		return
	}
	if !lib.Same(v1, v2) || !lib.Same(v1, v3) || !lib.SameErr(e1, e2) || !lib.SameErr(e1, e3) {
		res.Violate(ev.Violation{Check: "parse", Kind: "depends-on-capacity", Attrs: attrs,
			Msg: fmt.Sprintf("%s(%s): exact (%+v, %v) / poison A5 (%+v, %v) / poison 5A (%+v, %v)", p.Name, ev.Hex(in), v1, e1, v2, e2, v3, e3), Case: mk()})
		return
	}
	if !bytes.Equal(ex, in) || !bytes.Equal(a, in) || !bytes.Equal(b, in) {
		res.Violate(ev.Violation{Check: "parse", Kind: "input-modified", Attrs: attrs, Msg: fmt.Sprintf("%s modified its input %s", p.Name, ev.Hex(in)), Case: mk()})
	}
	for i := n; i < n+64; i++ {
		if lc.pa[i] != 0xA5 || lc.pb[i] != 0x5A {
			res.Violate(ev.Violation{Check: "parse", Kind: "writes-past-len", Attrs: attrs, Msg: fmt.Sprintf("%s wrote into the spare capacity of %s", p.Name, ev.Hex(in)), Case: mk()})
			break
		}
	}
	if e1 != nil {
		switch p.Kind {
		case "func", "dispatch", "dispatch-crc":
			if !lib.IsNil(v1) {
				res.Violate(ev.Violation{Check: "parse", Kind: "value-with-error", Attrs: attrs, Msg: fmt.Sprintf("%s(%s) = (%+v, %v): non-nil value with error", p.Name, ev.Hex(in), v1, e1), Case: mk()})
			}
		case "header":
			if h, ok := v1.(packet.MBAPHeader); !ok || h != (packet.MBAPHeader{}) {
				res.Violate(ev.Violation{Check: "parse", Kind: "value-with-error", Attrs: attrs, Msg: fmt.Sprintf("%s(%s) = (%+v, %v)", p.Name, ev.Hex(in), v1, e1), Case: mk()})
			}
		}
	} else if p.Kind == "func" || p.Kind == "dispatch" || p.Kind == "dispatch-crc" {
		if lib.IsNil(v1) {
			res.Violate(ev.Violation{Check: "parse", Kind: "nil-without-error", Attrs: attrs, Msg: fmt.Sprintf("%s(%s) = (nil, nil)", p.Name, ev.Hex(in)), Case: mk()})
		} else {
			lc.parsedOK++
		}
	}
}

// tableSelfCheck compares lib.Parsers with the exported entry points found in /repo/packet (so that a newly added
// parser cannot be forgotten). Differences are reported as notes + INCONCLUSIVE through the vacuity guard.
func tableSelfCheck(res *ev.Result) {
	fset := token.NewFileSet()
	files, _ := filepath.Glob("/repo/packet/*.go")
	found := map[string]bool{}
	for _, f := range files {
		if strings.HasSuffix(f, "_test.go") {
			continue
		}
		af, err := parser.ParseFile(fset, f, nil, 0)
		if err != nil {
			continue
		}
		for _, d := range af.Decls {
			fd, ok := d.(*ast.FuncDecl)
			if !ok || fd.Recv != nil || !fd.Name.IsExported() {
				continue
			}
			n := fd.Name.Name
			if strings.HasPrefix(n, "Parse") || (strings.HasPrefix(n, "As") && strings.HasSuffix(n, "ErrorPacket")) || strings.HasPrefix(n, "LooksLike") {
				found[n] = true
			}
		}
	}
	have := map[string]bool{}
	for _, p := range lib.Parsers {
		have[strings.SplitN(p.Name, "(", 2)[0]] = true
	}
	var missing []string
	for n := range found {
		if !have[n] {
			missing = append(missing, n)
		}
	}
	sort.Strings(missing)
	if len(missing) > 0 {
		res.Note("PARSER-TABLE-INCOMPLETE: entry points in /repo/packet not in the harness table: " + strings.Join(missing, ","))
	}
	res.Add("entry_points_in_source", int64(len(found)))
}

type base struct {
	name    string
	fc      uint8
	rtu     bool
	data    []byte
	variant string // "raw", "len-fixed", "crc-fixed"
}

func fix(b *base) {
	n := len(b.data)
	switch b.variant {
	case "len-fixed":
		if n >= 6 {
			b.data[4], b.data[5] = byte((n-6)>>8), byte(n-6)
		}
	case "crc-fixed":
		if n >= 2 {
			c := spec.CRC(b.data[:n-2])
			b.data[n-2], b.data[n-1] = byte(c), byte(c>>8)
		}
	}
}

func frames() []struct {
	name string
	fc   uint8
	req  spec.Req
	resp spec.Resp
	isRq bool
} {
	type fr = struct {
		name string
		fc   uint8
		req  spec.Req
		resp spec.Resp
		isRq bool
	}
	var out []fr
	rq := func(name string, r spec.Req) {
		r.Unit, r.TID = 0x11, 0x0102
		out = append(out, fr{name: name, fc: r.FC, req: r, isRq: true})
	}
	rs := func(name string, r spec.Resp) {
		r.Unit, r.TID, r.Count = 0x11, 0x0102, -1
		out = append(out, fr{name: name, fc: r.FC, resp: r})
	}
	for _, fc := range []uint8{1, 2, 3, 4} {
		rq(fmt.Sprintf("req-fc%d", fc), spec.Req{FC: fc, Addr: 0x6B, Qty: 3})
		// well-formed requests whose range runs past the end of the address space (whatever a parser thinks of them, an
		// error comes with a nil value)
		rq(fmt.Sprintf("req-fc%d-past-65535", fc), spec.Req{FC: fc, Addr: 0xFFFF, Qty: 2})
		rq(fmt.Sprintf("req-fc%d-past-65535-max", fc), spec.Req{FC: fc, Addr: 0xFFF0, Qty: 125})
		for _, n := range []int{2, 20, 250} {
			rs(fmt.Sprintf("resp-fc%d-%d", fc, n), spec.Resp{FC: fc, Data: lib.Pattern("pos", n, 0)})
		}
	}
	rq("req-fc5", spec.Req{FC: 5, Addr: 0xAC, Value: spec.CoilOn})
	rq("req-fc6", spec.Req{FC: 6, Addr: 1, Value: 3})
	for _, fc := range []uint8{5, 6, 15, 16} {
		rs(fmt.Sprintf("resp-fc%d", fc), spec.Resp{FC: fc, Addr: 0x13, Value: 0x0A})
	}
	for _, q := range []int{1, 100, 1968} {
		rq(fmt.Sprintf("req-fc15-%d", q), spec.Req{FC: 15, Addr: 0x13, Qty: uint16(q), Data: lib.Pattern("pos", (q+7)/8, 0)})
	}
	for _, q := range []int{1, 10, 123} {
		rq(fmt.Sprintf("req-fc16-%d", q), spec.Req{FC: 16, Addr: 1, Qty: uint16(q), Data: lib.Pattern("pos", 2*q, 0)})
	}
	for _, q := range []int{1, 10, 121} {
		rq(fmt.Sprintf("req-fc23-%d", q), spec.Req{FC: 23, Addr: 3, Qty: 6, WAddr: 14, WQty: uint16(q), Data: lib.Pattern("pos", 2*q, 0)})
	}
	for _, n := range []int{2, 20, 250} {
		rs(fmt.Sprintf("resp-fc23-%d", n), spec.Resp{FC: 23, Data: lib.Pattern("pos", n, 0)})
	}
	rq("req-fc17", spec.Req{FC: 17})
	rs("resp-fc17-1", spec.Resp{FC: 17, ID: []byte{7}, Status: 0xFF})
	rs("resp-fc17-10", spec.Resp{FC: 17, ID: lib.Pattern("pos", 10, 0), Status: 0xFF, Extra: lib.Pattern("pos", 5, 0)})
	rs("resp-fc17-200", spec.Resp{FC: 17, ID: lib.Pattern("pos", 200, 0), Status: 0, Extra: lib.Pattern("pos", 49, 0)})
	rs("exc-fc3", spec.Resp{FC: 3, Exc: true, ExCode: 2})
	rs("exc-fc99", spec.Resp{FC: 99, Exc: true, ExCode: 1})
	// unsupported function codes with a body
	out = append(out, fr{name: "req-fc7-unsupported", fc: 7, isRq: true})
	return out
}

func parsersFor(fc uint8, rtu bool) []*lib.Parser {
	var out []*lib.Parser
	for i := range lib.Parsers {
		p := &lib.Parsers[i]
		if p.RTU != rtu {
			continue
		}
		if p.Kind == "func" && p.FC != fc {
			continue
		}
		out = append(out, p)
	}
	return out
}

var sweepVals = func() []int {
	m := map[int]bool{}
	for _, v := range lib.B8 {
		m[int(v)] = true
	}
	for _, v := range []int{4, 5, 6, 9, 10, 11, 12, 13, 23, 0x80, 0x81, 0x83, 0x8F, 0x90, 0x91, 0x97, 125, 126, 242, 243, 244, 245, 248, 249, 252, 253} {
		m[v] = true
	}
	var out []int
	for v := range m {
		out = append(out, v)
	}
	sort.Ints(out)
	return out
}()

func run(tier string, shard, nsh int, res *ev.Result) {
	if err := spec.SelfCheck(); err != nil {
		panic(err)
	}
	thorough := tier == "thorough"
	if shard == 0 {
		nc := historyProbe(res) // first thing in the process
		res.Add("history_probe_calls", nc)
		res.Add("evaluations", nc)
	}
	tableSelfCheck(res)
	var jobs []func(lc *local)
	add := func(f func(lc *local)) { jobs = append(jobs, f) }
	// Part 1: every byte string of length 0..maxLen
	maxLen := 2
	if thorough {
		maxLen = 3
	}
	for pi := range lib.Parsers {
		p := &lib.Parsers[pi]
		add(func(lc *local) {
			evalInput(p, nil, res, lc)
			buf := make([]byte, 3)
			for a := 0; a < 256; a++ {
				buf[0] = byte(a)
				evalInput(p, buf[:1], res, lc)
				for b := 0; b < 256; b++ {
					buf[1] = byte(b)
					evalInput(p, buf[:2], res, lc)
				}
			}
		})
		if maxLen >= 3 {
			for a0 := 0; a0 < 256; a0 += 32 {
				a0 := a0
				add(func(lc *local) {
					buf := make([]byte, 3)
					for a := a0; a < a0+32; a++ {
						buf[0] = byte(a)
						for b := 0; b < 256; b++ {
							buf[1] = byte(b)
							for c := 0; c < 256; c++ {
								buf[2] = byte(c)
								evalInput(p, buf, res, lc)
							}
						}
					}
				})
			}
		}
	}
	// Part 2: structured space
	fullSweepMax := 13
	if thorough {
		fullSweepMax = 32
	}
	for _, fr := range frames() {
		for _, rtu := range []bool{false, true} {
			fr, rtu := fr, rtu
			var full []byte
			switch {
			case fr.name == "req-fc7-unsupported":
				pdu := append([]byte{7}, lib.Pattern("pos", 20, 0)...)
				if rtu {
					full = spec.RTU(0x11, pdu)
				} else {
					full = spec.TCP(0x0102, 0x11, pdu)
				}
			case fr.isRq:
				full = fr.req.Frame(rtu)
			default:
				full = fr.resp.Frame(rtu)
			}
			ps := parsersFor(fr.fc, rtu)
			add(func(lc *local) {
				maxL := len(full) + 4
				if maxL > 320 {
					maxL = 320
				}
				for L := 0; L <= maxL; L++ {
					if !thorough && L > 24 && (L < len(full)-3 || L > len(full)+4) && L%16 != 0 {
						continue
					}
					variants := []string{"raw", "len-fixed"}
					if rtu {
						variants = []string{"raw", "crc-fixed"}
					}
					for _, vr := range variants {
						b := base{name: fr.name, fc: fr.fc, rtu: rtu, variant: vr, data: make([]byte, L)}
						for i := range b.data {
							if i < len(full) {
								b.data[i] = full[i]
							} else {
								b.data[i] = byte(0x33 + i)
							}
						}
						fix(&b)
						for _, p := range ps {
							evalInput(p, b.data, res, lc)
						}
						saved := append([]byte(nil), b.data...)
						for off := 0; off <= 20 && off < L; off++ {
							vals := sweepVals
							if L <= fullSweepMax {
								vals = nil
								for v := 0; v < 256; v++ {
									vals = append(vals, v)
								}
							}
							for _, v := range vals {
								copy(b.data, saved)
								if int(saved[off]) == v {
									continue
								}
								b.data[off] = byte(v)
								if !(vr == "len-fixed" && (off == 4 || off == 5)) {
									fix(&b)
								}
								// when the function code byte is swept, the per-function parsers of the new code are exercised through the dispatchers
								for _, p := range ps {
									evalInput(p, b.data, res, lc)
								}
							}
						}
						// pairs of control offsets over B8 x B8 (byte count / quantity fields)
						if L >= 9 && L <= 40 || L == len(full) {
							pairs := [][2]int{{8, 12}, {10, 11}, {11, 12}, {12, 16}, {15, 16}, {2, 6}, {4, 5}, {5, 6}, {4, 10}}
							for _, pr := range pairs {
								if pr[1] >= L {
									continue
								}
								for _, x := range lib.B8 {
									for _, y := range lib.B8 {
										copy(b.data, saved)
										b.data[pr[0]], b.data[pr[1]] = x, y
										fix(&b)
										for _, p := range ps {
											evalInput(p, b.data, res, lc)
										}
									}
								}
							}
						}
					}
				}
			})
		}
	}
	// long inputs for the classifier / dispatchers
	add(func(lc *local) {
		for _, n := range []int{65541, 65542, 65535 + 6, 400, 1000} {
			in := make([]byte, n)
			for i := range in {
				in[i] = byte(i * 7)
			}
			in[2], in[3] = 0, 0
			in[4], in[5] = byte((n-6)>>8), byte(n-6)
			for _, fc := range []byte{1, 3, 15, 16, 23, 17, 99} {
				in[7] = fc
				for pi := range lib.Parsers {
					p := &lib.Parsers[pi]
					if !p.RTU {
						evalInput(p, in, res, lc)
					}
				}
			}
		}
	})
	var mu sync.Mutex
	var tot local
	ev.Par(len(jobs), runtime.NumCPU(), func(i int) {
		lc := newLocal()
		jobs[i](lc)
		mu.Lock()
		tot.evals += lc.evals
		tot.calls += lc.calls
		tot.parsedOK += lc.parsedOK
		mu.Unlock()
	})
	res.Add("evaluations", tot.evals)
	res.Add("parser_calls", tot.calls)
	res.Add("parsed_successfully", tot.parsedOK)
	res.Add("entry_points", int64(len(lib.Parsers)))
	res.DistinctAdd("nontrivial", tot.parsedOK)
	res.Axis("byte strings of length 0.."+fmt.Sprint(maxLen), "full", map[int]int64{2: 65793, 3: 16843009}[maxLen])
	res.Axis("entry points", "full (table checked against /repo/packet source)", int64(len(lib.Parsers)))
	res.Axis("input length (truncated/extended valid frames)", "full 0..len+4 (<=320)", 321)
	res.Axis("single-offset sweep 0..20", fmt.Sprintf("full 256 values for L<=%d, %d boundary values above", fullSweepMax, len(sweepVals)), 21*256)
	res.Axis("capacity presentation", "exact / poison 0xA5 / poison 0x5A", 3)
	res.Sample(Case{Entry: "ParseTCPRequest", Data: "01020000000111"})
	res.Sample(Case{Entry: "ParseReadHoldingRegistersResponseRTU", Data: "110306"})
	res.Sample(Case{Entry: "LooksLikeModbusTCP(false)", Data: "0102000000061103006b0003"})
}

func replay(check string, raw json.RawMessage, res *ev.Result) {
	if check == "history" {
		var c HistCase
		json.Unmarshal(raw, &c)
		replayHistory(c, res)
		return
	}
	var c Case
	json.Unmarshal(raw, &c)
	p := lib.ByName(c.Entry)
	if p == nil {
		fmt.Fprintln(os.Stderr, "unknown entry", c.Entry)
		return
	}
	in, _ := hex.DecodeString(c.Data)
	evalInput(p, in, res, newLocal())
}

func main() {
	ev.Main(ev.Spec{
		Property: prop, Level: "exploration",
		Rule: "every byte string up to the stated length to every entry point; plus truncations/extensions of valid frames of every length with consistent and inconsistent headers / CRCs and one-at-a-time " +
			"sweeps of offsets 0..20; each input under three capacity presentations. non-trivial = inputs a parser decoded successfully (counted per (entry point, input), distinct by construction)",
		Assumptions: []string{"strings longer than 3 bytes are covered through the structured space only; its soundness rests on parsers branching only on length and on offsets 0..20, which the one-at-a-time sweep of every such offset tests"},
		Run:         run, Replay: replay,
		Vacuity: func(tier string, res *ev.Result) string {
			for _, n := range res.Notes {
				if strings.HasPrefix(n, "PARSER-TABLE-INCOMPLETE") {
					return n
				}
			}
			if res.Counters["parsed_successfully"] < 1000 {
				return "fewer than 1000 successful parses: structured space does not reach past the guards"
			}
			return ""
		},
	})
}
