package main

import (
	"encoding/hex"
	"fmt"

	"verif/ev"
	"verif/lib"
)

// "Its result depends only on the bytes within the slice's length": also not on what any entry point was given
// BEFORE. For every ordered pair of entry points (p, q) and every pair of probe inputs (x, y) the sequence p(x), q(y),
// p(x) is executed; the first and the last result must be the same down to the content of the error (message, type,
// and - for the typed parse errors - the exception frame they encode to). The probe runs first in the process.

type HistCase struct {
	P string `json:"entry"`
	Q string `json:"entry_between"`
	X string `json:"data_hex"`
	Y string `json:"data_between_hex"`
}

func renderResult(v any, err error, pan string) string {
	if pan != "" {
		return "PANIC " + pan
	}
	s := fmt.Sprintf("%+v", v)
	if err != nil {
		s += fmt.Sprintf(" | %T %q", err, err.Error())
		if b, ok := err.(interface{ Bytes() []byte }); ok {
			func() {
				defer func() {
					if rec := recover(); rec != nil {
						s += " bytes=PANIC"
					}
				}()
				s += " bytes=" + hex.EncodeToString(b.Bytes())
			}()
		}
	}
	return s
}

func probeInputs() [][]byte {
	return [][]byte{
		{},
		{0xAB},
		{0xAB, 0xCD, 0x00},
		{0x12, 0x34, 0x00, 0x00, 0x00, 0x06, 0x11},                                     // 7 bytes: too short for TCP, tid 1234 unit 11
		{0x77, 0x88, 0x00, 0x00, 0x00, 0x06, 0x22},                                     // the same with other ids
		{0x00, 0x01, 0x00, 0x00, 0x00, 0x06, 0x01, 0x03, 0x00, 0x6B, 0x00, 0x03},       // FC3 request (TCP)
		{0x99, 0x98, 0x00, 0x00, 0x00, 0x06, 0x05, 0x2B, 0x0E, 0x01, 0x00, 0x00},       // unsupported function, other ids
		{0x00, 0x02, 0x00, 0x00, 0x00, 0x03, 0x0A, 0x83, 0x02},                         // exception reply (TCP)
		{0x01, 0x03, 0x00, 0x6B, 0x00, 0x03, 0x74, 0x17},                               // FC3 request (RTU, good CRC)
		{0x0A, 0x83, 0x02, 0xC0, 0xF1},                                                 // exception reply (RTU)
		{0x55, 0x66, 0x00, 0x00, 0x00, 0x05, 0x07, 0x03, 0x02, 0xCA, 0xFE},             // FC3 response (TCP)
		{0x31, 0x32, 0x00, 0x00, 0x00, 0x06, 0x09, 0x03, 0x00, 0x00, 0x00, 0x7E, 0x00}, // quantity out of range
	}
}

func historyProbe(res *ev.Result) (calls int64) {
	ins := probeInputs()
	for pi := range lib.Parsers {
		p := &lib.Parsers[pi]
		for qi := range lib.Parsers {
			q := &lib.Parsers[qi]
			for xi, x := range ins {
				for yi, y := range ins {
					if xi == yi {
						continue
					}
					r1 := renderResult(call(p, append([]byte(nil), x...)))
					call(q, append([]byte(nil), y...))
					r3 := renderResult(call(p, append([]byte(nil), x...)))
					calls += 3
					if r1 != r3 {
						res.Violate(ev.Violation{Check: "history", Kind: "result-depends-on-earlier-calls", Attrs: map[string]any{"entry": p.Name, "between": q.Name},
							Msg:  fmt.Sprintf("%s(%s) = %s; after %s(%s) the same call = %s", p.Name, ev.Hex(x), r1, q.Name, ev.Hex(y), r3),
							Case: HistCase{P: p.Name, Q: q.Name, X: hex.EncodeToString(x), Y: hex.EncodeToString(y)}})
						break
					}
				}
			}
		}
	}
	return calls
}

func replayHistory(c HistCase, res *ev.Result) {
	var p, q *lib.Parser
	for i := range lib.Parsers {
		if lib.Parsers[i].Name == c.P {
			p = &lib.Parsers[i]
		}
		if lib.Parsers[i].Name == c.Q {
			q = &lib.Parsers[i]
		}
	}
	if p == nil || q == nil {
		return
	}
	x, _ := hex.DecodeString(c.X)
	y, _ := hex.DecodeString(c.Y)
	r1 := renderResult(call(p, append([]byte(nil), x...)))
	call(q, append([]byte(nil), y...))
	r3 := renderResult(call(p, append([]byte(nil), x...)))
	if r1 != r3 {
		res.Violate(ev.Violation{Check: "history", Kind: "result-depends-on-earlier-calls", Attrs: map[string]any{"entry": p.Name, "between": q.Name},
			Msg: fmt.Sprintf("%s(%s) = %s; after %s(%s) the same call = %s", p.Name, ev.Hex(x), r1, q.Name, ev.Hex(y), r3), Case: c})
	}
}
