// C17 — server lifecycle: safe with any callbacks, exact accounting, graceful shutdown.
// Engine C: the real server.Server (sources transformed at check time: sync/atomic/time/go/select routed through the
// cooperative scheduler) serves an in-memory listener; client, controller and serve threads are real goroutines run one
// at a time; every schedule with at most d deviations from the default schedule (d per scenario, see items) is
// enumerated by the stateless DFS and judged by the lifecycle oracles in verif/srvx.
package main

import (
	"encoding/json"
	"fmt"
	"os"
	"strings"
	"time"

	"github.com/aldas/go-modbus-client/verifshim/vsched"
	"verif/ev"
	"verif/explore"
	"verif/srvx"
)

const prop = "C17"

// Case is the replayable artefact of one execution.
type Case struct {
	Scenario  srvx.Scenario `json:"scenario"`
	Budget    int           `json:"budget"`
	TimeFirst bool          `json:"time_first"`
	All       bool          `json:"all_schedules,omitempty"`
	Choices   []int         `json:"choices"`
}

type item struct {
	sc     srvx.Scenario
	budget int
	all    bool // every schedule (no bound; preemption mode, sleep-set reduction)
}

var (
	s1 = []string{"dial", "send", "recv", "close"}
	s2 = []string{"dial", "send2", "recv"}
	s3 = []string{"dial", "close"}
	s4 = []string{"dial", "send", "recv", "send", "recv", "close"}
)

func mk(name string, cb int, handler string, control string, at int, clients ...[]string) srvx.Scenario {
	return srvx.Scenario{Name: name, Callbacks: cb, Handler: handler, Control: control, ControlAt: at, Clients: clients}
}

func items(tier string) []item {
	var out []item
	add := func(b int, sc srvx.Scenario) { out = append(out, item{sc: sc, budget: b}) }
	thorough := tier == "thorough"
	repr := []int{0, srvx.CbAccept, srvx.CbClose, 15}
	// A: every callback combination, one client, the three basic endings
	for cb := 0; cb < 16; cb++ {
		d := 2
		if thorough && (cb == 0 || cb == 15 || cb == srvx.CbAccept || cb == srvx.CbClose) {
			d = 3
		}
		add(d, mk("A/none", cb, "instant", "none", 0, s1))
		add(d, mk("A/shutdown@2", cb, "instant", "shutdown", 2, s1))
		add(d, mk("A/cancel@2", cb, "instant", "cancel", 2, s1))
		add(d, mk("A/shutdown-inflight", cb, "sleep120", "shutdown", 2, s1))
		if thorough {
			add(1, mk("A/two-clients", cb, "instant", "shutdown", 4, []string{"dial", "send", "recv"}, []string{"quiesce", "dial", "send", "recv", "close"}))
		}
	}
	// B: shutdown at every position of the script, instant and slow handlers
	for _, cb := range repr {
		for at := 0; at <= 4; at++ {
			for _, h := range []string{"instant", "sleep10", "sleep120"} {
				if !thorough && (h == "sleep10" || at == 4) {
					continue
				}
				d := 2
				if thorough {
					d = 3
				}
				add(d, mk(fmt.Sprintf("B/shutdown@%d", at), cb, h, "shutdown", at, s1))
			}
		}
	}
	// B2: a client that stays connected (idle) while shutdown comes early
	for _, cb := range []int{15, 0} {
		for at := 0; at <= 2; at++ {
			d := 2
			if thorough {
				d = 3
			}
			add(d, mk(fmt.Sprintf("B2/idle-shutdown@%d", at), cb, "instant", "shutdown", at, []string{"dial", "send", "recv"}))
		}
	}
	// C: the other controller actions
	for _, cb := range []int{15, 0} {
		if cb == 0 && !thorough {
			continue
		}
		dc := 2
		if thorough {
			dc = 3
		}
		for at := 0; at <= 3; at++ {
			add(dc, mk(fmt.Sprintf("C/cancel@%d", at), cb, "instant", "cancel", at, s1))
		}
		add(dc, mk("C/shutdown-on-serve", cb|srvx.CbServe, "instant", "shutdown-on-serve", 0, s1))
		add(dc, mk("C/shutdown-before-serve", cb, "instant", "shutdown-before-serve", 0, s1))
		add(dc, mk("C/shutdown-cancelled@2", cb, "sleep120", "shutdown-cancelled", 2, s1))
		add(dc, mk("C/shutdown-cancelled@3", cb, "instant", "shutdown-cancelled", 3, s1))
		add(dc, mk("C/shutdown+cancel@2", cb, "sleep10", "shutdown+cancel", 2, s1))
	}
	// M: many connections one after the other (state that accumulates from connection to connection: the counter, the
	// connection set, whatever a change may cache): 8 clients staggered in virtual time, each settles the system before it
	// dials so that the accept callback's number is exact; "leave" = everybody disconnects, "stay" = odd clients stay
	for _, cb := range []int{15, srvx.CbAccept, 0} {
		for _, variant := range []string{"leave", "stay"} {
			var scripts [][]string
			ops := 0
			for i := 0; i < 8; i++ {
				sc := []string{fmt.Sprintf("sleep:%d", 40*(i+1)), "quiesce", "dial", "send", "recv"}
				if variant == "leave" || i%2 == 0 {
					sc = append(sc, "close")
				}
				ops += len(sc)
				scripts = append(scripts, sc)
			}
			add(1, mk("M/eight-in-a-row-"+variant, cb, "instant", "shutdown", ops, scripts...))
		}
	}
	// H: Shutdown called twice / from two goroutines; a client that tries to connect after the shutdown
	for _, cb := range []int{15, 0} {
		add(2, mk("H/shutdown-twice", cb, "sleep10", "shutdown-twice", 2, s1))
		add(2, mk("H/shutdown-concurrent", cb, "sleep10", "shutdown-concurrent", 2, s1))
		add(2, mk("H/dial-after-shutdown", cb, "instant", "shutdown", 3, []string{"dial", "send", "recv"}, []string{"wait-ctl", "quiesce", "dial", "send", "recv", "close"}))
		add(1, mk("H/dial-after-cancel", cb, "instant", "cancel", 3, []string{"dial", "send", "recv"}, []string{"wait-ctl", "quiesce", "dial", "close"}))
	}
	// D: other client shapes
	add(2, mk("D/idle-then-shutdown", 15, "instant", "shutdown", 3, s2))
	add(2, mk("D/connect-close", 15, "instant", "shutdown", 1, s3))
	add(2, mk("D/connect-close-none", srvx.CbClose, "instant", "none", 0, s3))
	add(1, mk("D/two-exchanges", 15, "instant", "shutdown", 4, s4))
	// the client leaves before its reply can be written (the server's write fails), alone and against a shutdown
	for _, cb := range []int{15, srvx.CbClose, 0} {
		add(2, mk("D/leave-before-reply", cb, "sleep10", "none", 0, []string{"dial", "send", "close"}))
		add(2, mk("D/leave-before-reply+shutdown", cb, "sleep10", "shutdown", 2, []string{"dial", "send", "close"}))
		add(1, mk("D/half-request-then-leave", cb, "instant", "shutdown", 2, []string{"dial", "write:000100000006", "close"}))
		add(1, mk("D/half-request-idle-shutdown", cb, "instant", "shutdown", 2, []string{"dial", "write:000100000006", "quiesce"}))
	}
	if thorough {
		add(2, mk("D/two-exchanges", 15, "sleep10", "shutdown", 4, s4))
		add(2, mk("D/idle-then-cancel", 15, "instant", "cancel", 3, s2))
	}
	// E: two clients, accounting
	c0idle := []string{"dial", "send", "recv"}
	c0close := []string{"dial", "send", "recv", "close"}
	c1late := []string{"quiesce", "dial", "send", "recv", "close"}
	c1par := []string{"dial", "send", "recv", "close"}
	for _, cb := range []int{15, srvx.CbAccept | srvx.CbClose, srvx.CbAccept} {
		d := 1
		if thorough {
			d = 2
		}
		add(d, mk("E/second-after-first-stays", cb, "instant", "none", 0, c0idle, c1late))
		add(d, mk("E/second-after-first-left", cb, "instant", "none", 0, c0close, c1late))
		add(1, mk("E/parallel", cb, "instant", "none", 0, c0close, c1par))
		sc := mk("E/reject-second", cb, "instant", "none", 0, c0idle, c1late)
		sc.RejectNth = 2
		add(d, sc)
		sc = mk("E/reject-first", cb, "instant", "none", 0, c0close, c1late)
		sc.RejectNth = 1
		add(d, sc)
		add(1, mk("E/shutdown-two", cb, "sleep10", "shutdown", 5, c0idle, c1par))
	}
	// two (three) requests in flight when Shutdown starts; everybody stays connected afterwards, so a connection that
	// Shutdown forgets stays open
	for _, cb := range []int{15, 0} {
		for _, h := range []string{"sleep120", "sleep10"} {
			sc := mk("E/two-inflight-at-shutdown", cb, h, "shutdown", 4, c0idle, c0idle)
			sc.ControlAtHandled = 2
			add(1, sc)
		}
		sc := mk("E/three-inflight-at-shutdown", cb, "sleep120", "shutdown", 6, c0idle, c0idle, c0idle)
		sc.ControlAtHandled = 3
		add(1, sc)
	}
	if thorough {
		sc2 := mk("E/two-inflight-at-shutdown", 15, "sleep120", "shutdown", 4, c0idle, c0idle)
		sc2.ControlAtHandled = 2
		add(2, sc2)
		add(2, mk("E/shutdown-two", 15, "sleep120", "shutdown", 5, c0idle, c1par))
		add(1, mk("E/three", 15, "instant", "shutdown", 8, c0idle, c1late, []string{"quiesce", "dial", "send", "recv", "close"}))
	}
	// K: the systematic two-client product - script shapes x every controller position x shutdown / cancel
	{
		shapes := [][]string{s1, c0idle, s3, {"dial", "send", "close"}}
		second := [][]string{c1par, c0idle, s3, c1late}
		for _, cb := range []int{15, 0} {
			for _, h := range []string{"instant", "sleep10"} {
				for i, a := range shapes {
					for j, b := range second {
						total := len(a) + len(b)
						for _, ctl := range []string{"shutdown", "cancel"} {
							for at := 0; at <= total; at++ {
								if !thorough && (at%2 == 1 || (h == "sleep10" && cb == 0)) {
									continue
								}
								d := 1
								if thorough && ctl == "shutdown" && h == "sleep10" && cb == 15 {
									d = 2
								}
								add(d, mk(fmt.Sprintf("K/%d-%d/%s@%d", i, j, ctl, at), cb, h, ctl, at, a, b))
							}
						}
						add(1, mk(fmt.Sprintf("K/%d-%d/none", i, j), cb, h, "none", 0, a, b))
					}
				}
			}
		}
	}
	// F: a panicking handler on one connection, a normal exchange on the other (shared with C16)
	for _, cb := range []int{15, 0} {
		sc := mk("F/panic-other-continues", cb, "instant", "none", 0, c0idle, c1late)
		sc.PanicOnConn = 1
		add(1, sc)
		sc = mk("F/panic-then-shutdown", cb, "instant", "shutdown", 3, s1)
		sc.PanicOnConn = 1
		add(2, sc)
	}
	// U: EVERY schedule (no deviation bound) of the smallest closed systems: connect-and-leave, and (thorough) one
	// complete exchange; the trees of anything with a Shutdown in it are out of reach without a stronger reduction
	out = append(out, item{sc: mk("U/all-schedules/connect-close", 0, "instant", "none", 0, s3), budget: 1 << 30, all: true})
	out = append(out, item{sc: mk("U/all-schedules/connect-close", srvx.CbClose|srvx.CbAccept, "instant", "none", 0, s3), budget: 1 << 30, all: true})
	if thorough {
		out = append(out, item{sc: mk("U/all-schedules/one-exchange", 0, "instant", "none", 0, s1), budget: 1 << 30, all: true})
	}
	// G: the library's default 5 ms read timeout (idle polling is part of the schedule space)
	g := mk("G/default-read-timeout", 15, "sleep10", "shutdown", 3, s1)
	g.ReadTimeout = "default"
	add(1, g)
	return out
}

type local struct {
	execs, steps, newSteps, points, pruned, hbAcc int64
}

func runItem(it item, shard, n int, res *ev.Result, lc *local, stop func() bool) {
	base := Case{Scenario: it.sc, Budget: it.budget, TimeFirst: !it.all, All: it.all}
	if it.all {
		explore.UpperBudget = 2000
		defer func() { explore.UpperBudget = 48 }()
	}
	outcomes := map[string]int64{}
	body := func(x *explore.Ctx) {
		cfg := vsched.Config{Choose: x.Choose, Budget: it.budget, TimeFirst: true}
		if it.all {
			cfg = vsched.Config{Choose: x.Choose, Budget: it.budget, Mode: vsched.ModePreemption, SleepSets: true, MaxSteps: 5000}
		}
		r := srvx.Run(it.sc, cfg)
		if r.Out.Hung {
			fmt.Printf("INCONCLUSIVE property=%s watchdog: an execution of %s stopped reaching scheduling points (choices %v)\n", prop, it.sc.Name, x.Choices())
			os.Exit(3)
		}
		if x.Shadow {
			return
		}
		for _, v := range r.Races {
			c := base
			c.Choices = x.Choices()
			attrs := map[string]any{"_scenario": it.sc.Name} // one class per pair of source positions, whatever the scenario
			for k, val := range v.Attrs {
				attrs[k] = val
			}
			res.Violate(ev.Violation{Check: "lifecycle", Kind: v.Kind, Attrs: attrs,
				Msg: fmt.Sprintf("%s cb=%04b handler=%s control=%s@%d d<=%d choices=%v: %s", it.sc.Name, it.sc.Callbacks, it.sc.Handler, it.sc.Control, it.sc.ControlAt, it.budget, c.Choices, v.Msg), Case: c})
		}
		lc.hbAcc += int64(r.Out.HBAccesses)
		if r.Out.Pruned {
			lc.pruned++
			return
		}
		lc.execs++
		lc.steps += int64(r.Out.Steps)
		shared := 0
		if p := x.PrefixLen(); p > 0 && p <= len(r.Out.ChoiceSteps) {
			shared = r.Out.ChoiceSteps[p-1]
		}
		lc.newSteps += int64(r.Out.Steps - shared)
		outcomes[r.Summary]++
		for _, v := range r.V {
			c := base
			c.Choices = x.Choices()
			attrs := map[string]any{"scenario": it.sc.Name, "cb_accept": it.sc.Callbacks&srvx.CbAccept != 0, "cb_close": it.sc.Callbacks&srvx.CbClose != 0}
			for k, val := range v.Attrs {
				attrs[k] = val
			}
			attrs["_callbacks"] = it.sc.Callbacks
			res.Violate(ev.Violation{Check: "lifecycle", Kind: v.Kind, Attrs: attrs,
				Msg: fmt.Sprintf("%s cb=%04b handler=%s control=%s@%d d<=%d choices=%v: %s", it.sc.Name, it.sc.Callbacks, it.sc.Handler, it.sc.Control, it.sc.ControlAt, it.budget, c.Choices, v.Msg), Case: c})
		}
	}
	defer func() {
		if rec := recover(); rec != nil {
			panic(fmt.Sprintf("%v [item %s cb=%04b handler=%s control=%s@%d d<=%d]", rec, it.sc.Name, it.sc.Callbacks, it.sc.Handler, it.sc.Control, it.sc.ControlAt, it.budget))
		}
	}()
	st := explore.ExploreShard(body, shard, n, stop)
	lc.points += st.Points
	key := fmt.Sprintf("%s/cb%d/%s/d%d", it.sc.Name, it.sc.Callbacks, it.sc.Handler, it.budget)
	if st.Truncated {
		res.Incomplete = append(res.Incomplete, key)
	}
	for o, c := range outcomes {
		res.Outcome(it.sc.Name + ": " + o)
		_ = c
	}
}

func run(tier string, shard, n int, res *ev.Result) {
	start := time.Now()
	deadline := ev.Deadline(start, tier, 10*time.Minute, 25*time.Minute)
	stop := func() bool { return time.Now().After(deadline) }
	lc := &local{}
	its := items(tier)
	for _, it := range its {
		if f := os.Getenv("VERIF_ITEM"); f != "" && !strings.Contains(it.sc.Name, f) { // debugging aid: run only matching items
			continue
		}
		if stop() {
			res.Incomplete = append(res.Incomplete, it.sc.Name+" (not started)")
			continue
		}
		runItem(it, shard, n, res, lc, stop)
	}
	res.Add("evaluations", lc.execs)
	res.Add("executions", lc.execs)
	res.Add("steps", lc.steps)
	res.Add("tree_nodes", lc.newSteps)
	res.Add("choice_points", lc.points)
	res.Add("sleep_set_pruned", lc.pruned)
	res.Add("hb_field_accesses_checked", lc.hbAcc)
	res.DistinctAdd("nontrivial", lc.execs)
	if shard == 0 {
		res.Add("scenarios", int64(len(its)))
		res.Axis("callback combinations", "full", 16)
		res.Axis("scenario x configuration items", "declared list", int64(len(its)))
		res.Axis("schedules per item", "all with <= d deviations (delay bounding; timer-first and map-order count as deviations)", 0)
		for _, i := range []int{0, len(its) / 2, len(its) - 1} {
			res.Sample(map[string]any{"scenario": its[i].sc, "deviation_bound": its[i].budget})
		}
	}
}

func replay(check string, raw json.RawMessage, res *ev.Result) {
	var c Case
	if err := json.Unmarshal(raw, &c); err != nil {
		panic(err)
	}
	var prev string
	for i := 0; i < 3; i++ { // determinism: the same schedule must give the same observations every time
		var r *srvx.Result
		explore.Replay(func(x *explore.Ctx) {
			cfg := vsched.Config{Choose: x.Choose, Budget: c.Budget, TimeFirst: c.TimeFirst, Trace: true}
			if c.All {
				cfg = vsched.Config{Choose: x.Choose, Budget: c.Budget, Mode: vsched.ModePreemption, SleepSets: true, MaxSteps: 5000, Trace: true}
			}
			r = srvx.Run(c.Scenario, cfg)
		}, c.Choices)
		sig := fmt.Sprint(r.Summary, r.V, r.Races, len(r.Out.Trace))
		if i > 0 && sig != prev {
			fmt.Printf("INCONCLUSIVE property=%s replay is not deterministic\n", prop)
			os.Exit(3)
		}
		prev = sig
		if i == 0 {
			for _, s := range r.Out.Trace {
				fmt.Printf("  thread %d: %s\n", s.Thread, s.Label)
			}
			if r.Out.Crash != "" {
				fmt.Println(r.Out.Crash)
			}
			for _, v := range append(append([]srvx.V{}, r.Races...), r.V...) {
				res.Violate(ev.Violation{Check: check, Kind: v.Kind, Attrs: v.Attrs, Msg: v.Msg, Case: c})
			}
		}
	}
}

var racePass map[string]any

func main() {
	ev.Main(ev.Spec{
		Property: prop,
		Level:    "model_checking",
		Rule: "Each item is a closed system (server configuration x client scripts x controller action); all schedules of its threads with at most d deviations from the " +
			"default schedule are enumerated by a stateless DFS over the real, transformed server code (scheduling points: every lock/atomic/timer/goroutine/network operation, " +
			"every access to a mutable field, every select). An execution is non-trivial when it ran to completion under the oracles; executions are distinct by construction " +
			"(distinct choice sequences).",
		Assumptions: []string{
			"executions are sequentially consistent (cooperative scheduler); reads / writes of the mutable fields of Server and connection are judged for happens-before races in every explored schedule (vector clocks over the program's own synchronisation; edges over-approximated, so a report is never invented); what the transformer cannot place is left to the auxiliary -race pass",
			"in-memory network implements the net.Conn/net.Listener contract the server relies on; time is virtual",
			"schedules beyond the stated deviation bound, more than 3 clients and handler durations other than 0/10/120 ms are not covered",
		},
		Run:        run,
		Replay:     replay,
		Shards:     func(tier string) int { return 16 },
		ShardProcs: 1,
		Post: func(tier string, res *ev.Result) {
			racePass = ev.RacePass(res, "TestRaceC17", 2)
		},
		Finish: func(tier string, res *ev.Result, cov map[string]any) {
			cov["race_pass"] = racePass
			cov["states"] = res.Counters["tree_nodes"]
			cov["transitions"] = res.Counters["steps"]
			cov["traces_validated_against_impl"] = res.Counters["executions"]
			cov["state_definition"] = "node of the schedule tree (distinct prefix of scheduling decisions); transitions = scheduling steps executed on the real code"
		},
		Vacuity: func(tier string, res *ev.Result) string {
			if res.Counters["executions"] < 1000 {
				return "fewer than 1000 executions"
			}
			if len(res.Outcomes) < 10 {
				return "fewer than 10 distinct outcomes over all scenarios: nothing collided"
			}
			return ""
		},
	})
}
