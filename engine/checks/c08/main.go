// C08 — a request call always terminates with a classified error on transport faults.
// Engine B: every prefix length of the reply x fault kind, with one fragmentation deviation before the fault point.
package main

import (
	"context"
	"encoding/json"
	"errors"
	"fmt"
	"io"
	"net"
	"os"
	"strings"
	"syscall"
	"time"

	modbus "github.com/aldas/go-modbus-client"
	"verif/clientx"
	"verif/ev"
	"verif/explore"
	"verif/lib"
	"verif/spec"
)

const prop = "C08"

var faults = []string{"stall", "eof", "ioerr", "ioerr+data", "oversize-burst", "oversize-by-1", "oversize-by-2", "oversize-by-4", "oversize-drip", "write-error", "setwritedeadline-error", "cancel", "cancel-before", "cancel-before+reply", "flush-error", "ctx-deadline",
	// two things failing at once on a serial port that can be flushed (an unplugged adapter): the transport failure AND the
	// flush the client attempts on its failure path
	"write-error+flush-error", "ioerr+flush-error", "ioerr+data+flush-error", "eof+flush-error",
	"ioerr-timeoutish"}

type Case struct {
	Kind    int      `json:"kind"`
	Req     spec.Req `json:"req"`
	ExcCode int      `json:"exc_code"`
	Fault   string   `json:"fault"`
	Prefix  int      `json:"prefix"`
	Cuts    int      `json:"cut_budget"`
	Choices []int    `json:"choices"`
	Special string   `json:"special,omitempty"` // not-connected, nil-request
}

var errInjected = errors.New("injected transport failure")

// errLinkTimedOut is a hard link failure whose error value says Timeout() == true (ETIMEDOUT from the kernel: the peer
// stopped acknowledging) - not an expired read deadline: the client must not mistake it for an empty poll.
var errLinkTimedOut error = &net.OpError{Op: "read", Net: "tcp", Err: syscall.ETIMEDOUT}

func injected(err error) bool { return err == errInjected || err == errLinkTimedOut }

type faulty struct {
	c     *explore.Ctx
	kind  clientx.Kind
	fault string
	p     int
	fired bool
}

func (f *faulty) silent() clientx.ReadAnswer {
	if f.kind.IsSerial() {
		return clientx.ReadAnswer{Timeout: true, Label: "silent"}
	}
	return clientx.ReadAnswer{Timeout: true, Err: clientx.TimeoutErr(), Label: "silent"}
}

func (f *faulty) Read(t *clientx.Transport, bufLen int) clientx.ReadAnswer {
	toP := f.p - t.Delivered
	if toP > 0 && !f.fired {
		n := toP
		if n > bufLen {
			n = bufLen
		}
		alts := 1
		if f.c.Left("cut") > 0 {
			alts = n // deliver n (default) or only k = 1..n-1
		}
		i := f.c.Choose(alts, "prefix-read")
		if i > 0 {
			f.c.Spend("cut")
			return clientx.ReadAnswer{N: i, Label: "cut"}
		}
		return clientx.ReadAnswer{N: n, Label: "prefix"}
	}
	first := !f.fired
	f.fired = true
	switch f.fault {
	case "stall", "write-error", "setwritedeadline-error", "cancel-before", "cancel-before+reply", "flush-error", "ctx-deadline":
		return f.silent()
	case "eof":
		return clientx.ReadAnswer{Err: io.EOF, Label: "eof"}
	case "ioerr":
		if first {
			return clientx.ReadAnswer{Err: errInjected, Label: "ioerr"}
		}
		return f.silent()
	case "ioerr-timeoutish":
		if first {
			return clientx.ReadAnswer{Err: errLinkTimedOut, Label: "ioerr"}
		}
		return f.silent()
	case "ioerr+data":
		if first {
			return clientx.ReadAnswer{N: 1, Err: errInjected, Label: "ioerr+data"}
		}
		return f.silent()
	case "oversize-burst":
		if first {
			return clientx.ReadAnswer{N: t.Remaining(), Extra: make([]byte, 400), Label: "burst"}
		}
		return f.silent()
	case "oversize-by-1", "oversize-by-2", "oversize-by-4":
		// the total lands just above the client's limit (256 bytes on a serial line, 260 on the network clients)
		if first {
			k := int(f.fault[len(f.fault)-1] - '0')
			limit := 260
			if t.Kind.IsSerial() {
				limit = 256
			}
			extra := limit + k - t.ReplyLen()
			if extra < 1 {
				extra = 1
			}
			return clientx.ReadAnswer{N: t.Remaining(), Extra: make([]byte, extra), Label: "burst"}
		}
		return f.silent()
	case "oversize-drip":
		if t.Remaining() > 0 {
			return clientx.ReadAnswer{N: 1, Label: "drip"}
		}
		return clientx.ReadAnswer{Extra: []byte{0}, Label: "drip"}
	case "cancel":
		if first {
			a := f.silent()
			a.Cancel = true
			a.Label = "cancel"
			return a
		}
		return f.silent()
	}
	panic("harness: fault " + f.fault)
}

func (f *faulty) Write(t *clientx.Transport, data []byte) error {
	if f.fault == "write-error" {
		return errInjected
	}
	return nil
}

func (f *faulty) SetWriteDeadline(t *clientx.Transport) error {
	if f.fault == "setwritedeadline-error" {
		return errInjected
	}
	return nil
}

const readTimeout = 5 * time.Millisecond
const ctxTimeout = 2 * time.Millisecond

func opts(c Case) clientx.Options {
	o := clientx.Options{ReadTimeout: readTimeout}
	switch c.Fault {
	case "cancel-before", "cancel-before+reply":
		o.CancelBefore = true
	case "flush-error", "write-error+flush-error", "ioerr+flush-error", "ioerr+data+flush-error", "eof+flush-error":
		o.FlushErr = errInjected
	case "ctx-deadline":
		// the caller's own deadline (2 ms of virtual time) ends before the library's read timeout (5 ms) while the line is silent
		o.CtxTimeout = ctxTimeout
	}
	switch c.Special {
	case "not-connected":
		o.NotConnected = true
	case "nil-request":
		o.NilRequest = true
	}
	return o
}

func judge(sc clientx.Sc, run clientx.Run, c Case, res *ev.Result) (nontrivial bool) {
	rtu := sc.Kind.RTU()
	attrs := map[string]any{"client": sc.Kind.String(), "fault": c.Fault, "special": c.Special, "_fc": int(sc.Req.FC)}
	bad := func(kind, msg string) {
		res.Violate(ev.Violation{Check: "fault", Kind: kind, Attrs: attrs, Msg: fmt.Sprintf("%s fault=%s%s prefix=%d choices=%v: %s", sc.Name, c.Fault, c.Special, c.Prefix, c.Choices, msg), Case: c})
	}
	if run.Hang {
		bad("hang", "the call did not return: "+run.Panic)
		return
	}
	if run.Panic != "" {
		bad("panic", "the call panicked: "+run.Panic)
		return
	}
	// what observably happened on the transport
	var sawInjectedRead, sawInjectedWrite, sawInjectedSWD, cancelled bool
	total := 0
	nTransport := len(run.Log)
	for _, e := range run.Log {
		switch e.Op {
		case "read":
			total += e.N
			if injected(e.ErrVal()) {
				sawInjectedRead = true
			}
		case "write":
			if e.ErrVal() == errInjected {
				sawInjectedWrite = true
			}
		case "setwritedeadline":
			if e.ErrVal() == errInjected {
				sawInjectedSWD = true
			}
		}
	}
	cancelled = c.Fault == "cancel-before" || c.Fault == "cancel-before+reply"
	ctxErr := context.Canceled
	if c.Fault == "ctx-deadline" {
		// the deadline "cancels" once the virtual clock has passed it (the call cannot end earlier on a silent line)
		ctxErr = context.DeadlineExceeded
		cancelled = run.Elapsed >= ctxTimeout
	}
	if c.Fault == "cancel" {
		for _, p := range explorePoints(run) {
			if p == "cancel" {
				cancelled = true
			}
		}
	}
	// the limit beyond which a reply is "oversize": 260 bytes for the network clients (for RTU framing over a network
	// connection the specification's 256 would also be defensible: totals of 257..260 there are left unclassified), 256 on
	// a serial line
	max := 260
	if sc.Kind.IsSerial() {
		max = 256
	}
	_ = rtu
	// oversize: the client was handed more than its limit - or the stream held more than the limit and the client simply
	// did not take it (a client that caps its read window at the limit can never see the excess, and then reports a
	// parse error instead of the too-long error)
	oversize := total > max || (strings.HasPrefix(c.Fault, "oversize-b") && lastFired)
	// The total read timer is armed after the write (the serial client first sleeps 30 ms). The call "timed out" when the
	// clock passed that deadline while the line was silent (last transport read was empty).
	deadline := readTimeout
	if sc.Kind.IsSerial() {
		deadline += 30 * time.Millisecond
	}
	for _, e := range run.Log {
		if e.Op == "write" {
			deadline += time.Duration(e.AtNs)
		}
	}
	lastEmpty := false
	for _, e := range run.Log {
		if e.Op == "read" {
			lastEmpty = e.N == 0 && !injected(e.ErrVal())
		}
	}
	timedOut := run.Elapsed >= deadline && lastEmpty
	complete := run.Delivered >= len(sc.Reply) && !oversize && !sawInjectedRead && !sawInjectedWrite && !sawInjectedSWD && !cancelled && c.Special == ""
	if c.Special != "" {
		if run.Err == nil || !lib.IsNil(run.Resp) {
			bad("success-without-transport", fmt.Sprintf("got (%v, %v)", run.Resp, run.Err))
			return
		}
		if nTransport != 0 {
			bad("transport-used", fmt.Sprintf("%d transport calls on an unconnected client / nil request", nTransport))
		}
		if c.Special == "not-connected" && !sc.Kind.IsSerial() {
			var ce *modbus.ClientError
			if !errors.As(run.Err, &ce) || ce != &modbus.ErrClientNotConnected {
				bad("not-connected-misclassified", fmt.Sprintf("error %v (%T) is not ErrClientNotConnected", run.Err, run.Err))
			}
		}
		return true
	}
	if complete {
		// the fault never materialised before the reply was complete: the outcome is C07's business
		return false
	}
	if run.Err == nil || !lib.IsNil(run.Resp) {
		// A fault after the client already has all bytes it asked for is not a fault for this call.
		if !sawInjectedRead && !sawInjectedWrite && !sawInjectedSWD && !oversize && !cancelled && !timedOut && run.Delivered >= sc.Expected {
			return false
		}
		if lib.IsNil(run.Resp) {
			bad("nil-nil", "returned nil response and nil error")
		} else {
			bad("reports-success", fmt.Sprintf("returned a response %T (%x) although only %d of %d reply bytes were delivered before the fault", run.Resp, run.Resp.Bytes(), run.Delivered, len(sc.Reply)))
		}
		return true
	}
	var ce *modbus.ClientError
	isCE := errors.As(run.Err, &ce)
	switch {
	case sawInjectedWrite:
		if !isCE || !errors.Is(run.Err, errInjected) {
			bad("write-error-misclassified", fmt.Sprintf("error %v (%T) does not wrap the write failure in *ClientError", run.Err, run.Err))
		}
	case cancelled && !sawInjectedRead && !oversize:
		if c.Fault == "ctx-deadline" && !sc.Kind.IsSerial() && run.Elapsed > ctxTimeout+readTimeout/2 {
			// the caller's deadline passed at ctxTimeout; the network clients look at the context between polls of 0.5 ms
			// (the serial client's 30 ms pause after the write does not look at it - nothing is demanded of that here); the bound is
			// generous: half a read timeout after the deadline
			bad("cancel-noticed-late", fmt.Sprintf("the caller's deadline passed at %v on the virtual clock, the call returned only at %v", ctxTimeout, run.Elapsed))
		}
		if !errors.Is(run.Err, ctxErr) {
			// the cancel is injected together with an empty read, so the client reaches its next context test first
			bad("cancel-misclassified", fmt.Sprintf("context was cancelled but error is %v (%T)", run.Err, run.Err))
		}
	case sawInjectedRead:
		cause := errInjected
		if c.Fault == "ioerr-timeoutish" {
			cause = errLinkTimedOut
		}
		if !isCE || !errors.Is(run.Err, cause) {
			bad("io-error-misclassified", fmt.Sprintf("a transport read failed with the injected error but the call returned %v (%T)", run.Err, run.Err))
		}
	case oversize:
		if !isCE || ce != &modbus.ErrPacketTooLong {
			bad("oversize-misclassified", fmt.Sprintf("transport delivered %d bytes (> %d) but the call returned %v (%T)", total, max, run.Err, run.Err))
		}
	case c.Fault == "stall" && !timedOut && run.Delivered < sc.Expected && run.Delivered < len(sc.Reply):
		// the line went silent before the client had the bytes it asks for, and the call returned BEFORE its read timeout:
		// whatever made it give up, a stall is reported as the retryable client error (never as a parse error of the
		// fragment)
		if !isCE {
			bad("stall-misclassified", fmt.Sprintf("the line went silent after %d of %d reply bytes (the client asks for %d); the call returned %v (%T) after %v, before its read timeout", run.Delivered, len(sc.Reply), sc.Expected, run.Err, run.Err, run.Elapsed))
		}
	case timedOut:
		// "returns within a bounded time": the bound is the client's own read timeout (plus one poll of the transport, plus
		// the serial client's 30 ms turn-around pause, all on the virtual clock): a call that is still waiting half a read
		// timeout later has lost track of it
		if over := run.Elapsed - deadline; over > readTimeout/2 {
			bad("timeout-overrun", fmt.Sprintf("the line went silent; the read timeout (%v after the write) passed at %v on the virtual clock, the call returned only at %v", readTimeout, deadline, run.Elapsed))
		}
		if !isCE {
			bad("timeout-misclassified", fmt.Sprintf("virtual clock reached the read timeout (%v) but the call returned %v (%T)", run.Elapsed, run.Err, run.Err))
		}
	}
	if sc.Kind == clientx.SerialFlusher && !strings.HasSuffix(c.Fault, "flush-error") && run.Flushes == 0 && len(run.Log) > 0 && !cancelled && !timedOut {
		// serial client promises to flush the port on failure paths (not demanded by C08's statement; reported as an outcome only)
		res.Outcome("serial-failure-without-flush")
	}
	return true
}

// explorePoints extracts labels we need from the run (the cancel is visible as a read with Cancel at that point:
// recorded through the elapsed log only; we use the transport log's order instead).
func explorePoints(run clientx.Run) []string {
	// the faulty policy fires "cancel" exactly once, at the first read at/after the prefix; if any read happened at or
	// after that point the cancel was delivered.
	var out []string
	for _, e := range run.Log {
		if e.Op == "read" && e.N == 0 {
			out = append(out, "cancel")
		}
	}
	return out
}

func scenarios(thorough bool) []clientx.Sc {
	var out []clientx.Sc
	for _, k := range []clientx.Kind{clientx.TCP, clientx.RTUNet, clientx.Serial, clientx.SerialFlusher} {
		all := clientx.Scenarios(k, false)
		for _, sc := range all {
			n := len(sc.Reply)
			if !thorough && n > 80 && n < 250 {
				continue
			}
			out = append(out, sc)
		}
		out = append(out, clientx.ExceptionScenarios(k, []int{2})...)
	}
	return out
}

func mkCase(sc clientx.Sc, fault string, p, cuts int) Case {
	c := Case{Kind: int(sc.Kind), Req: sc.Req, ExcCode: -1, Fault: fault, Prefix: p, Cuts: cuts}
	if sc.Exc {
		c.ExcCode = int(sc.ExcCode)
	}
	return c
}

func execute(sc clientx.Sc, c Case, x *explore.Ctx) clientx.Run {
	x.SetBudget("cut", c.Cuts)
	f := &faulty{c: x, kind: sc.Kind, fault: strings.TrimSuffix(c.Fault, "+flush-error"), p: c.Prefix}
	run := clientx.Execute(sc.Scenario, sc.Q, f, opts(c))
	lastFired = f.fired
	return run
}

// lastFired: did the fault policy of the most recent execution reach its fault (executions are sequential per process)
var lastFired bool

func run(tier string, shard, nsh int, res *ev.Result) {
	if shard == 0 {
		nc := sequenceCheck(res)
		res.Add("sequence_calls", nc)
		res.Add("evaluations", nc)
		res.Axis("request calls after a failed call on the same client", "4 client kinds x {timeout, two timeouts, cancelled context, EOF before the reply}", nc)
	}
	thorough := tier == "thorough"
	scs := scenarios(thorough)
	var execs, points, nontrivial int64
	states := map[string]struct{}{}
	job := 0
	for _, sc := range scs {
		n := len(sc.Reply)
		for _, fault := range faults {
			if (fault == "setwritedeadline-error") && sc.Kind.IsSerial() {
				continue
			}
			if strings.HasSuffix(fault, "flush-error") && sc.Kind != clientx.SerialFlusher {
				continue
			}
			for p := 0; p <= n; p++ {
				if (fault == "write-error" || fault == "write-error+flush-error" || fault == "setwritedeadline-error" || fault == "cancel-before") && p > 0 {
					break
				}
				if fault == "cancel-before+reply" && p < n {
					continue // the context is cancelled before the call and the transport answers normally (whole reply, or cut once)
				}
				job++
				if job%nsh != shard {
					continue
				}
				cuts := 0
				if thorough || p <= 16 || p >= n-2 {
					cuts = 1
				}
				base := mkCase(sc, fault, p, cuts)
				st := explore.Explore(func(x *explore.Ctx) {
					run := execute(sc, base, x)
					c := base
					c.Choices = x.Choices()
					before := len(res.Violations)
					if judge(sc, run, c, res) {
						nontrivial++
					}
					if len(res.Violations) > before {
						o1 := run.Observation()
						for i := 0; i < 2; i++ {
							explore.Replay(func(y *explore.Ctx) {
								if execute(sc, base, y).Observation() != o1 {
									panic(explore.ReplayError{Msg: "explore: replay of a violating execution gave different observations"})
								}
							}, c.Choices)
						}
					}
					res.Outcome(outcomeOf(run))
					states[fmt.Sprintf("%d/%s/%d", sc.Kind, fault, run.Delivered*100/(n+1))] = struct{}{}
				}, 0)
				execs += st.Executions
				points += st.Points
			}
		}
		// immediate failures
		for _, sp := range []string{"not-connected", "nil-request"} {
			job++
			if job%nsh != shard {
				continue
			}
			c := mkCase(sc, "", 0, 0)
			c.Special = sp
			explore.Explore(func(x *explore.Ctx) {
				run := execute(sc, c, x)
				judge(sc, run, c, res)
				nontrivial++
			}, 0)
			execs++
		}
	}
	res.Add("evaluations", execs)
	res.Add("executions", execs)
	res.Add("choice_points", points)
	res.DistinctAdd("nontrivial", nontrivial)
	for k := range states {
		res.Seen("states", []byte(k))
	}
	if shard == 0 {
		res.Axis("client kind", "tcp, rtu-net, serial, serial-flusher", 4)
		res.Axis("request type x reply size", "10 functions x boundary sizes + exception reply", int64(len(scs)))
		res.Axis("fault kind", strings.Join(faults, ",")+", not-connected, nil-request", int64(len(faults)+2))
		res.Axis("prefix length of the reply at which the fault strikes", "full 0..n", 260)
		res.Axis("fragmentation before the fault", map[bool]string{true: "<=1 cut at every position", false: "<=1 cut at every position for prefixes <=16 or within 2 of the end"}[thorough], 0)
		res.Sample(map[string]any{"scenario": scs[0].Name, "fault": "stall", "prefix": 3, "choices": []int{0}})
		res.Sample(map[string]any{"scenario": scs[1].Name, "fault": "cancel", "prefix": 0, "choices": []int{}})
	}
}

func outcomeOf(run clientx.Run) string {
	switch {
	case run.Hang:
		return "hang"
	case run.Panic != "":
		return "panic"
	case run.Err == nil:
		return "success"
	}
	var ce *modbus.ClientError
	if errors.As(run.Err, &ce) {
		switch {
		case ce == &modbus.ErrPacketTooLong:
			return "ClientError(too long)"
		case errors.Is(run.Err, errInjected):
			return "ClientError(injected)"
		case strings.Contains(run.Err.Error(), "timeout"):
			return "ClientError(timeout)"
		case strings.Contains(run.Err.Error(), "no bytes"):
			return "ClientError(no bytes)"
		}
		return "ClientError(other)"
	}
	if errors.Is(run.Err, context.Canceled) {
		return "context.Canceled"
	}
	if errors.Is(run.Err, os.ErrDeadlineExceeded) {
		return "deadline"
	}
	return "plain error"
}

func replay(check string, raw json.RawMessage, res *ev.Result) {
	if check == "sequence" {
		sequenceCheck(res)
		return
	}
	var c Case
	json.Unmarshal(raw, &c)
	for _, sc := range scenarios(true) {
		b := mkCase(sc, c.Fault, c.Prefix, c.Cuts)
		if b.Kind == c.Kind && fmt.Sprint(b.Req) == fmt.Sprint(c.Req) && b.ExcCode == c.ExcCode {
			explore.Replay(func(x *explore.Ctx) {
				run := execute(sc, c, x)
				judge(sc, run, c, res)
			}, c.Choices)
			return
		}
	}
	fmt.Fprintln(os.Stderr, "scenario not found")
}

func main() {
	ev.Main(ev.Spec{
		Property: prop, Level: "fault_enumeration",
		Rule: "every (scenario, fault kind, prefix length) with <=1 fragmentation deviation before the fault point, executed on the real clients under a virtual clock; oracle: terminates, no panic, nil response + error, " +
			"classification decided from what observably happened on the transport. non-trivial = executions in which the fault materialised before the reply was complete",
		Assumptions: []string{"time is virtual; every transport read costs at least 10 us, an empty timed-out read costs the read deadline (network) / 1 ms (serial port timeout)", "ReadTimeout 5 ms",
			"EOF and SetWriteDeadline failures are only required to end the call with an error (the statement's classification sentence does not name them)"},
		Run: run, Replay: replay,
		Shards: func(tier string) int { return 16 },
	})
}
