package main

// A request call after a FAILED request call on the same client (from a non-initial state): whatever the earlier call
// left behind - a fired timer, a cancelled context, a half-read reply - the next call must again return within bounded
// time, and with its own reply when the transport now answers normally.

import (
	"context"
	"fmt"
	"io"
	"net"
	"os"
	"runtime"
	"sync/atomic"
	"time"

	modbus "github.com/aldas/go-modbus-client"
	"github.com/aldas/go-modbus-client/packet"
	"github.com/aldas/go-modbus-client/verifshim/vtime"
	"verif/ev"
	"verif/lib"
	"verif/spec"
)

type seqConn struct {
	rtu, serial bool
	dev         *spec.Device
	chunks      [][]byte
	rdl         time.Time
	abandoned   *int32 // set when the sequence was given up as hung: the transport then ends the calling goroutine
	mute        bool   // requests are swallowed: no reply (the line stalls)
	eofNow      bool   // the peer closes instead of answering
}

func (c *seqConn) Write(p []byte) (int, error) {
	if c.mute || c.eofNow {
		return len(p), nil
	}
	rq, err := spec.DecodeReq(p, c.rtu)
	if err != nil {
		return len(p), nil
	}
	reply := c.dev.Handle(rq).Frame(c.rtu)
	h := (len(reply) + 1) / 2
	c.chunks = append(c.chunks, append([]byte(nil), reply[:h]...), append([]byte(nil), reply[h:]...))
	return len(p), nil
}

func (c *seqConn) Read(p []byte) (int, error) {
	if c.abandoned != nil && atomic.LoadInt32(c.abandoned) != 0 {
		// the check has reported this sequence as hung and moved on: a goroutine that is still spinning here would keep
		// advancing the virtual clock under everything that runs afterwards
		runtime.Goexit()
	}
	vtime.Advance(10 * time.Microsecond)
	if len(c.chunks) == 0 {
		if c.eofNow && !c.serial {
			return 0, io.EOF
		}
		if c.serial {
			vtime.Advance(time.Millisecond)
			return 0, nil
		}
		vtime.AdvanceTo(c.rdl)
		return 0, os.ErrDeadlineExceeded
	}
	n := copy(p, c.chunks[0])
	if n < len(c.chunks[0]) {
		c.chunks[0] = c.chunks[0][n:]
	} else {
		c.chunks = c.chunks[1:]
	}
	return n, nil
}
func (c *seqConn) Close() error                       { return nil }
func (c *seqConn) Flush() error                       { return nil }
func (c *seqConn) LocalAddr() net.Addr                { return &net.TCPAddr{} }
func (c *seqConn) RemoteAddr() net.Addr               { return &net.TCPAddr{} }
func (c *seqConn) SetDeadline(t time.Time) error      { c.rdl = t; return nil }
func (c *seqConn) SetReadDeadline(t time.Time) error  { c.rdl = t; return nil }
func (c *seqConn) SetWriteDeadline(t time.Time) error { return nil }

type SeqCase struct {
	Kind  string `json:"client"`
	First string `json:"first_call_fault"`
}

func sequenceCheck(res *ev.Result) (calls int64) {
	type doer interface {
		Do(ctx context.Context, req packet.Request) (packet.Response, error)
	}
	for _, kind := range []string{"tcp", "rtu-net", "serial", "serial-flusher"} {
		rtu := kind != "tcp"
		for _, first := range []string{"stall-until-timeout", "stall-twice", "cancelled-context", "eof-before-reply", "not-connected", "not-connected-twice", "nil-request", "stall-then-peer-closed"} {
			if first == "eof-before-reply" && rtu && kind != "rtu-net" {
				continue
			}
			if first == "stall-then-peer-closed" && kind != "tcp" && kind != "rtu-net" {
				continue // "the peer closes the stream" is a network notion
			}
			if (first == "not-connected" || first == "not-connected-twice") && kind != "tcp" && kind != "rtu-net" {
				continue // a serial client is "connected" by construction
			}
			kind, first := kind, first
			type outcome struct {
				step string
				resp packet.Response
				err  error
				want []byte
			}
			done := make(chan []outcome, 1)
			abandoned := new(int32)
			go func() {
				conn := &seqConn{abandoned: abandoned, rtu: rtu, serial: kind == "serial" || kind == "serial-flusher", dev: spec.NewDevice(spec.ImageHash, spec.BitImage)}
				vtime.ResetClock()
				var cl doer
				var netClient *modbus.Client
				switch kind {
				case "tcp", "rtu-net":
					conf := modbus.ClientConfig{ReadTimeout: 5 * time.Millisecond, DialContextFunc: func(ctx context.Context, a string) (net.Conn, error) { return conn, nil }}
					var c *modbus.Client
					if rtu {
						c = modbus.NewRTUClientWithConfig(conf)
					} else {
						c = modbus.NewTCPClientWithConfig(conf)
					}
					if first != "not-connected" && first != "not-connected-twice" {
						c.Connect(context.Background(), "x")
					}
					netClient = c
					cl = c
				case "serial":
					cl = modbus.NewSerialClient(struct{ io.ReadWriteCloser }{conn}, modbus.WithSerialReadTimeout(5*time.Millisecond))
				default:
					cl = modbus.NewSerialClient(conn, modbus.WithSerialReadTimeout(5*time.Millisecond))
				}
				mk := func(n int) (packet.Request, []byte) {
					r := spec.Req{FC: 3, Unit: 1, Addr: uint16(10 + n), Qty: 2, TID: uint16(0x0C00 + n)}
					q, err := lib.NewRequest(r, rtu)
					if err != nil {
						panic(err)
					}
					if !rtu {
						lib.SetTID(q, r.TID)
					}
					dr, _ := spec.DecodeReq(q.Bytes(), rtu)
					return q, spec.NewDevice(spec.ImageHash, spec.BitImage).Handle(dr).Frame(rtu)
				}
				var outs []outcome
				failing := 1
				if first == "stall-twice" || first == "not-connected-twice" {
					failing = 2
				}
				for n := 0; n < failing; n++ {
					q, _ := mk(n)
					ctx := context.Background()
					switch first {
					case "cancelled-context":
						c2, cancel := context.WithCancel(ctx)
						cancel()
						ctx = c2
						conn.mute = true
					case "eof-before-reply":
						conn.eofNow = true
					case "not-connected", "not-connected-twice":
					case "nil-request":
						q = nil
					default:
						conn.mute = true
					}
					resp, err := lib.SafeDo(cl.Do, ctx, q)
					outs = append(outs, outcome{step: "failing", resp: resp, err: err})
				}
				conn.mute, conn.eofNow = false, false
				conn.chunks = nil
				if first == "not-connected" || first == "not-connected-twice" {
					netClient.Connect(context.Background(), "x") // now connect: the refused calls must have left nothing behind
				}
				if first == "stall-then-peer-closed" {
					// after the failed call the peer closes the stream for good: every later call must still RETURN (with an
					// error) - whatever the client does about the earlier failure must not wait for a stream that has ended
					conn.eofNow = true
					for n := 0; n < 2; n++ {
						q, _ := mk(10 + n)
						resp, err := lib.SafeDo(cl.Do, context.Background(), q)
						outs = append(outs, outcome{step: "later-on-closed-stream", resp: resp, err: err})
					}
					done <- outs
					return
				}
				for n := 0; n < 2; n++ {
					q, want := mk(10 + n)
					resp, err := lib.SafeDo(cl.Do, context.Background(), q)
					outs = append(outs, outcome{step: "later", resp: resp, err: err, want: want})
				}
				done <- outs
			}()
			fail := func(k, msg string) {
				res.Violate(ev.Violation{Check: "sequence", Kind: k, Attrs: map[string]any{"client": kind, "first": first},
					Msg: fmt.Sprintf("%s client, calls after a call that ended with %s: %s", kind, first, msg), Case: SeqCase{Kind: kind, First: first}})
			}
			select {
			case outs := <-done:
				for i, o := range outs {
					calls++
					if pe, isPanic := o.err.(*lib.PanicError); isPanic {
						fail("panic", fmt.Sprintf("call %d panicked: %s", i, pe.Value))
						continue
					}
					switch o.step {
					case "failing":
						if o.err == nil || !lib.IsNil(o.resp) {
							fail("reports-success", fmt.Sprintf("call %d (transport fault: %s) returned (%v, %v)", i, first, o.resp, o.err))
						}
					case "later-on-closed-stream":
						if o.err == nil || !lib.IsNil(o.resp) {
							fail("reports-success", fmt.Sprintf("call %d on a stream the peer has closed returned (%v, %v)", i, o.resp, o.err))
						}
					case "later":
						if o.err != nil || lib.IsNil(o.resp) {
							fail("later-call-fails", fmt.Sprintf("call %d, answered normally by the transport, returned (%v, %v)", i, o.resp, o.err))
						} else if string(o.resp.Bytes()) != string(o.want) {
							fail("later-call-wrong-reply", fmt.Sprintf("call %d returned %x, its reply is %x", i, o.resp.Bytes(), o.want))
						}
					}
				}
			case <-time.After(60 * time.Second):
				atomic.StoreInt32(abandoned, 1)
				time.Sleep(50 * time.Millisecond) // let a spinning goroutine reach the transport once more and end
				// no virtual-time progress can explain a minute of real time: a call is blocked for good
				fail("hang", "the sequence did not finish: a request call never returned (60 s of real time; every wait of the client is on the virtual clock)")
			}
		}
	}
	return calls
}
