// C04 — typed register access returns the addressed wire bytes or an error, never junk.
package main

import (
	"bytes"
	"encoding/hex"
	"encoding/json"
	"fmt"
	"math"
	"runtime"
	"sync"

	"github.com/aldas/go-modbus-client/packet"
	"verif/ev"
	"verif/lib"
	"verif/spec"
)

const prop = "C04"

// Case is one accessor call on one window, replayable.
type Case struct {
	Start       int     `json:"start"`
	Count       int     `json:"count"`
	Poisoned    bool    `json:"poisoned"`           // payload is a prefix of a larger buffer filled with 0xA5
	Data        string  `json:"data_hex,omitempty"` // explicit payload (value sweep); empty = the position pattern
	Default     uint8   `json:"default_order"`
	BareDefault bool    `json:"bare_default,omitempty"`   // the view was given Default without its byte-order bit (a word-order flag alone)
	Prior       []uint8 `json:"prior_defaults,omitempty"` // WithByteOrder calls made on the view before the one that set Default
	Acc         string  `json:"accessor"`
	Addr        int     `json:"addr"`
	Order       uint8   `json:"order"`
	Bit         int     `json:"bit"`
	High        bool    `json:"high"`
	Len         int     `json:"len"`
}

type local struct {
	evals, inside int64
}

func payload(count int, poisoned bool) []byte {
	n := 2 * count
	if poisoned {
		buf := make([]byte, n+32)
		for i := range buf {
			buf[i] = 0xA5
		}
		d := buf[:n]
		for i := range d {
			d[i] = byte(i*7 + 3)
		}
		return d
	}
	d := make([]byte, n)
	for i := range d {
		d[i] = byte(i*7 + 3)
	}
	return d
}

type outcome struct {
	val any
	err error
	pan string
}

func callAcc(r *packet.Registers, c Case) (o outcome) {
	defer func() {
		if rec := recover(); rec != nil {
			o.pan = fmt.Sprint(rec)
		}
	}()
	a := uint16(c.Addr)
	ord := packet.ByteOrder(c.Order)
	switch c.Acc {
	case "Register":
		o.val, o.err = r.Register(a)
	case "DoubleRegister":
		o.val, o.err = r.DoubleRegister(a, ord)
	case "QuadRegister":
		o.val, o.err = r.QuadRegister(a, ord)
	case "Bit":
		o.val, o.err = r.Bit(a, uint8(c.Bit))
	case "Byte":
		o.val, o.err = r.Byte(a, c.High)
	case "Uint8":
		o.val, o.err = r.Uint8(a, c.High)
	case "Int8":
		o.val, o.err = r.Int8(a, c.High)
	case "Uint16":
		o.val, o.err = r.Uint16(a)
	case "Int16":
		o.val, o.err = r.Int16(a)
	case "Uint32":
		o.val, o.err = r.Uint32(a)
	case "Int32":
		o.val, o.err = r.Int32(a)
	case "Float32":
		o.val, o.err = r.Float32(a)
	case "Uint64":
		o.val, o.err = r.Uint64(a)
	case "Int64":
		o.val, o.err = r.Int64(a)
	case "Float64":
		o.val, o.err = r.Float64(a)
	case "Uint32WithByteOrder":
		o.val, o.err = r.Uint32WithByteOrder(a, ord)
	case "Int32WithByteOrder":
		o.val, o.err = r.Int32WithByteOrder(a, ord)
	case "Float32WithByteOrder":
		o.val, o.err = r.Float32WithByteOrder(a, ord)
	case "Uint64WithByteOrder":
		o.val, o.err = r.Uint64WithByteOrder(a, ord)
	case "Int64WithByteOrder":
		o.val, o.err = r.Int64WithByteOrder(a, ord)
	case "Float64WithByteOrder":
		o.val, o.err = r.Float64WithByteOrder(a, ord)
	case "String":
		o.val, o.err = r.String(a, uint8(c.Len))
	case "StringWithByteOrder":
		o.val, o.err = r.StringWithByteOrder(a, uint8(c.Len), ord)
	default:
		panic("harness: unknown accessor " + c.Acc)
	}
	return
}

// expect computes the reference answer: (value, ok). ok=false means the access must fail.
func expect(w spec.Window, c Case) (any, bool) {
	eff := c.Order
	if eff == 0 {
		eff = c.Default
	}
	switch c.Acc {
	case "Register":
		b, ok := w.Span(c.Addr, 1)
		if !ok {
			return []byte(nil), false
		}
		return append([]byte(nil), b...), true
	case "DoubleRegister", "QuadRegister":
		n := 2
		if c.Acc == "QuadRegister" {
			n = 4
		}
		b, ok := w.Span(c.Addr, n)
		if !ok {
			return []byte(nil), false
		}
		out := append([]byte(nil), b...)
		if c.Order&spec.OrdLowWordFirst != 0 { // explicit order is used as given (no default substitution is documented for these)
			for i := 0; i < n/2; i++ {
				j := n - 1 - i
				out[2*i], out[2*i+1], out[2*j], out[2*j+1] = out[2*j], out[2*j+1], out[2*i], out[2*i+1]
			}
		}
		return out, true
	case "Bit":
		if c.Bit > 15 {
			return false, false
		}
		b, ok := w.Span(c.Addr, 1)
		if !ok {
			return false, false
		}
		return spec.RegBit(b, c.Bit), true
	case "Byte", "Uint8", "Int8":
		b, ok := w.Span(c.Addr, 1)
		v := byte(0)
		if ok {
			v = b[1]
			if c.High {
				v = b[0]
			}
		}
		if c.Acc == "Int8" {
			return int8(v), ok
		}
		return v, ok
	case "Uint16", "Int16":
		b, ok := w.Span(c.Addr, 1)
		v := uint16(0)
		if ok {
			v = spec.U16(b, c.Default)
		}
		if c.Acc == "Int16" {
			return int16(v), ok
		}
		return v, ok
	case "Uint32", "Int32", "Float32", "Uint32WithByteOrder", "Int32WithByteOrder", "Float32WithByteOrder":
		if len(c.Acc) <= 7 {
			eff = c.Default
		}
		b, ok := w.Span(c.Addr, 2)
		v := uint32(0)
		if ok {
			v = spec.U32(b, eff)
		}
		switch c.Acc[0] {
		case 'I':
			return int32(v), ok
		case 'F':
			return math.Float32frombits(v), ok
		}
		return v, ok
	case "Uint64", "Int64", "Float64", "Uint64WithByteOrder", "Int64WithByteOrder", "Float64WithByteOrder":
		if len(c.Acc) <= 7 {
			eff = c.Default
		}
		b, ok := w.Span(c.Addr, 4)
		v := uint64(0)
		if ok {
			v = spec.U64(b, eff)
		}
		switch c.Acc[0] {
		case 'I':
			return int64(v), ok
		case 'F':
			return math.Float64frombits(v), ok
		}
		return v, ok
	case "String", "StringWithByteOrder":
		if c.Acc == "String" {
			eff = c.Default
		}
		if c.Len == 0 { // length 0 is outside the quantified space (1..255); an empty string or an error are both fine
			return "", true
		}
		b, ok := w.Span(c.Addr, spec.StrRegs(c.Len))
		if !ok {
			return "", false
		}
		return spec.Str(b, c.Len, eff), true
	}
	panic("harness: expect " + c.Acc)
}

func equalVal(a, b any) bool {
	switch x := a.(type) {
	case []byte:
		y, ok := b.([]byte)
		return ok && bytes.Equal(x, y)
	case float32:
		y, ok := b.(float32)
		return ok && math.Float32bits(x) == math.Float32bits(y)
	case float64:
		y, ok := b.(float64)
		return ok && math.Float64bits(x) == math.Float64bits(y)
	}
	return a == b
}

func isZero(v any) bool {
	switch x := v.(type) {
	case []byte:
		return x == nil
	case bool:
		return !x
	case string:
		return x == ""
	case uint8:
		return x == 0
	case int8:
		return x == 0
	case uint16:
		return x == 0
	case int16:
		return x == 0
	case uint32:
		return x == 0
	case int32:
		return x == 0
	case uint64:
		return x == 0
	case int64:
		return x == 0
	case float32:
		return x == 0
	case float64:
		return x == 0
	}
	return v == nil
}

type window struct {
	c        Case // Start, Count, Poisoned, Default
	data     []byte
	pristine []byte
	regs     *packet.Registers
	w        spec.Window
}

// newValueWindow is newWindow with explicit payload bytes (the value sweep: accessors must not special-case data values).
func newValueWindow(start int, d []byte, def uint8, res *ev.Result) *window {
	w := newWindowFrom(start, len(d)/2, false, def, append([]byte(nil), d...), res)
	if w != nil {
		w.c.Data = fmt.Sprintf("%x", d)
	}
	return w
}

func newWindow(start, count int, poisoned bool, def uint8, res *ev.Result) *window {
	return newWindowFrom(start, count, poisoned, def, payload(count, poisoned), res)
}

func newWindowFrom(start, count int, poisoned bool, def uint8, d []byte, res *ev.Result, prior ...uint8) *window {
	r, err := packet.NewRegisters(d, uint16(start))
	if err != nil || r == nil {
		res.Violate(ev.Violation{Check: "acc", Kind: "newregisters-refuses", Attrs: map[string]any{}, Msg: fmt.Sprintf("NewRegisters(%d bytes, %d): %v", len(d), start, err), Case: Case{Start: start, Count: count}})
		return nil
	}
	for _, p := range prior {
		r.WithByteOrder(packet.ByteOrder(p)) // earlier settings of the view's default: only the last one counts
	}
	if len(prior) > 0 && def == 0 {
		def = spec.DefaultOrder // "back to the documented default" has to be said explicitly after another order was set
	}
	bare := def == spec.OrdLowWordFirst || def == spec.OrdHighWordFirst
	if bare {
		// the library is given the bare flag; what it must then do is read big-endian bytes in the selected word order
		r.WithByteOrder(packet.ByteOrder(def))
		def |= spec.OrdBE
	} else if def != 0 {
		r.WithByteOrder(packet.ByteOrder(def))
	} else {
		def = spec.DefaultOrder
	}
	p := append([]byte(nil), d...)
	return &window{c: Case{Start: start, Count: count, Poisoned: poisoned, Default: def, Prior: prior, BareDefault: bare}, data: d, pristine: p, regs: r, w: spec.Window{Start: start, Wire: p}}
}

func posClass(c Case) string {
	n := 1
	switch c.Acc {
	case "DoubleRegister", "Uint32", "Int32", "Float32", "Uint32WithByteOrder", "Int32WithByteOrder", "Float32WithByteOrder":
		n = 2
	case "QuadRegister", "Uint64", "Int64", "Float64", "Uint64WithByteOrder", "Int64WithByteOrder", "Float64WithByteOrder":
		n = 4
	case "String", "StringWithByteOrder":
		n = spec.StrRegs(c.Len)
	}
	end := c.Start + c.Count
	switch {
	case c.Addr < c.Start:
		return "before"
	case c.Addr >= end:
		return "after"
	case c.Addr+n > end:
		return "straddles-end"
	}
	return "inside"
}

func (w *window) eval(c Case, res *ev.Result, lc *local) {
	if w.c.BareDefault && c.Acc[0] == 'S' && c.Order == 0 {
		return // what a bare word-order flag means for the BYTES of a string is documented nowhere: not demanded
	}
	lc.evals++
	c.Start, c.Count, c.Poisoned, c.Default, c.Data, c.Prior, c.BareDefault = w.c.Start, w.c.Count, w.c.Poisoned, w.c.Default, w.c.Data, w.c.Prior, w.c.BareDefault
	o := callAcc(w.regs, c)
	if !bytes.Equal(w.data, w.pristine) {
		// an accessor that rewrites the shared payload makes every later read of those registers return something that
		// is no longer determined by the wire bytes (the systematic treatment of this is C13's; here it is reported and the
		// payload restored so that later cases see pristine bytes)
		res.Violate(ev.Violation{Check: "access", Kind: "payload-mutated", Attrs: map[string]any{"acc": c.Acc, "long": c.Len > 64},
			Msg: fmt.Sprintf("%s(addr %d, len %d, order %d) on window [%d,+%d) rewrote the response payload", c.Acc, c.Addr, c.Len, c.Order, c.Start, c.Count), Case: c})
		copy(w.data, w.pristine)
	}
	var want any
	var ok bool
	// a bare word-order flag (LowWordFirst = 4 / HighWordFirst = 8 without a byte order): the library exports these
	// constants but does not say which byte order goes with them, so both readings are accepted - big-endian bytes, or
	// the byte order of the view's default - as long as the *word* order is the selected one
	var wantAlt any
	hasAlt := false
	if c.Order == spec.OrdLowWordFirst || c.Order == spec.OrdHighWordFirst {
		c1, c2 := c, c
		c1.Order = spec.OrdBE | c.Order
		def := c.Default
		if def == 0 {
			def = spec.DefaultOrder
		}
		c2.Order = (def & 3) | c.Order
		want, ok = expect(w.w, c1)
		wantAlt, _ = expect(w.w, c2)
		hasAlt = true
	} else {
		want, ok = expect(w.w, c)
	}
	width := "16"
	switch {
	case c.Acc[0] == 'S':
		width = "str"
	case bytes.Contains([]byte(c.Acc), []byte("32")) || c.Acc == "DoubleRegister":
		width = "32"
	case bytes.Contains([]byte(c.Acc), []byte("64")) || c.Acc == "QuadRegister":
		width = "64"
	}
	endsAtTop := c.Start+c.Count == 65536
	attrs := map[string]any{"width": width, "pos": posClass(c), "window_ends_at_65536": endsAtTop, "short_window": c.Count < 4,
		"_acc": c.Acc, "far": c.Addr-c.Start >= 32768}
	if ok {
		lc.inside++
	}
	switch {
	case o.pan != "":
		res.Violate(ev.Violation{Check: "acc", Kind: "panic", Attrs: attrs, Msg: fmt.Sprintf("%+v panicked: %s", c, o.pan), Case: c})
	case ok && o.err != nil:
		res.Violate(ev.Violation{Check: "acc", Kind: "rejects-inside", Attrs: attrs, Msg: fmt.Sprintf("%+v: all registers lie inside the window [%d,%d) but got error %v", c, c.Start, c.Start+c.Count, o.err), Case: c})
	case ok && !equalVal(o.val, want) && !(hasAlt && equalVal(o.val, wantAlt)):
		res.Violate(ev.Violation{Check: "acc", Kind: "wrong-value", Attrs: attrs, Msg: fmt.Sprintf("%+v: got %#v want %#v", c, o.val, want), Case: c})
	case !ok && o.err == nil:
		res.Violate(ev.Violation{Check: "acc", Kind: "accepts-outside", Attrs: attrs, Msg: fmt.Sprintf("%+v: registers not all inside the window [%d,%d) but got value %#v", c, c.Start, c.Start+c.Count, o.val), Case: c})
	case !ok && !isZero(o.val):
		res.Violate(ev.Violation{Check: "acc", Kind: "value-with-error", Attrs: attrs, Msg: fmt.Sprintf("%+v: error %v together with non-zero value %#v", c, o.err, o.val), Case: c})
	}
}

var orders7 = append([]uint8{0}, spec.DocumentedOrders...)

func (w *window) sweepAddr(addr int, allLens bool, res *ev.Result, lc *local) {
	if addr < 0 || addr > 65535 {
		return
	}
	w.eval(Case{Acc: "Register", Addr: addr}, res, lc)
	for b := 0; b < 16; b++ {
		w.eval(Case{Acc: "Bit", Addr: addr, Bit: b}, res, lc)
	}
	w.eval(Case{Acc: "Bit", Addr: addr, Bit: 16}, res, lc)
	for _, h := range []bool{false, true} {
		w.eval(Case{Acc: "Byte", Addr: addr, High: h}, res, lc)
		w.eval(Case{Acc: "Uint8", Addr: addr, High: h}, res, lc)
		w.eval(Case{Acc: "Int8", Addr: addr, High: h}, res, lc)
	}
	for _, a := range []string{"Uint16", "Int16", "Uint32", "Int32", "Float32", "Uint64", "Int64", "Float64"} {
		w.eval(Case{Acc: a, Addr: addr}, res, lc)
	}
	for _, o := range []uint8{spec.OrdLowWordFirst, spec.OrdHighWordFirst} { // bare word-order flags
		for _, a := range []string{"Uint32WithByteOrder", "Int32WithByteOrder", "Float32WithByteOrder", "Uint64WithByteOrder", "Int64WithByteOrder", "Float64WithByteOrder"} {
			w.eval(Case{Acc: a, Addr: addr, Order: o}, res, lc)
		}
	}
	for _, o := range orders7 {
		for _, a := range []string{"DoubleRegister", "QuadRegister", "Uint32WithByteOrder", "Int32WithByteOrder", "Float32WithByteOrder", "Uint64WithByteOrder", "Int64WithByteOrder", "Float64WithByteOrder"} {
			w.eval(Case{Acc: a, Addr: addr, Order: o}, res, lc)
		}
	}
	fit := (w.c.Start + w.c.Count - addr) * 2 // bytes available from addr
	var lens []int
	if allLens {
		for l := 1; l <= 255; l++ {
			lens = append(lens, l)
		}
	} else {
		for _, l := range []int{1, 2, 3, 4, fit - 2, fit - 1, fit, fit + 1, fit + 2, 254, 255} {
			if l >= 1 && l <= 255 {
				lens = append(lens, l)
			}
		}
	}
	for _, l := range lens {
		w.eval(Case{Acc: "String", Addr: addr, Len: l}, res, lc)
		for _, o := range orders7 {
			if !allLens && o != 0 && o != spec.OrdLE && o != spec.OrdBE|spec.OrdLowWordFirst {
				continue
			}
			w.eval(Case{Acc: "StringWithByteOrder", Addr: addr, Len: l, Order: o}, res, lc)
		}
	}
}

func run(tier string, shard, nsh int, res *ev.Result) {
	if err := spec.SelfCheck(); err != nil {
		panic(err)
	}
	thorough := tier == "thorough"
	counts := []int{1, 2, 3, 4, 5, 8, 124, 125}
	if thorough {
		counts = nil
		for c := 1; c <= 125; c++ {
			counts = append(counts, c)
		}
	}
	var jobs []func(lc *local)
	var windows int64
	if shard == 0 {
		var lc local
		earlyProbe(res, &lc) // before anything else has been decoded in this process: see there
	}
	// value sweep: every 16-bit register value through every 16-bit / 8-bit / bit accessor; boundary 32- and 64-bit values
	// through the wide accessors with every documented order; every byte value in strings
	for chunk := 0; chunk < 16; chunk++ {
		chunk := chunk
		jobs = append(jobs, func(lc *local) {
			for v := chunk * 4096; v < (chunk+1)*4096; v++ {
				for _, def := range []uint8{0, spec.OrdLE} {
					w := newValueWindow(100, []byte{byte(v >> 8), byte(v)}, def, res)
					if w == nil {
						return
					}
					for _, a := range []string{"Register", "Uint16", "Int16"} {
						w.eval(Case{Acc: a, Addr: 100}, res, lc)
					}
					for _, h := range []bool{false, true} {
						w.eval(Case{Acc: "Byte", Addr: 100, High: h}, res, lc)
						w.eval(Case{Acc: "Uint8", Addr: 100, High: h}, res, lc)
						w.eval(Case{Acc: "Int8", Addr: 100, High: h}, res, lc)
					}
					if v%257 == 0 || v < 512 || v > 65000 {
						for b := 0; b < 16; b++ {
							w.eval(Case{Acc: "Bit", Addr: 100, Bit: b}, res, lc)
						}
					}
					w.eval(Case{Acc: "String", Addr: 100, Len: 2}, res, lc)
					w.eval(Case{Acc: "StringWithByteOrder", Addr: 100, Len: 2, Order: spec.OrdLE}, res, lc)
				}
			}
		})
	}
	jobs = append(jobs, func(lc *local) {
		halves := []uint16{0, 1, 0x7F, 0x80, 0xFF, 0x100, 0x7FFF, 0x8000, 0x8001, 0xFFFE, 0xFFFF, 0x1234, 0xA5A5, 0x00FF, 0xFF00, 0x7F80, 0x3F80, 0x4000}
		for _, a := range halves {
			for _, b := range halves {
				d := []byte{byte(a >> 8), byte(a), byte(b >> 8), byte(b)}
				for _, def := range []uint8{0, spec.OrdLE | spec.OrdLowWordFirst} {
					w := newValueWindow(7, d, def, res)
					if w == nil {
						return
					}
					for _, acc := range []string{"Uint32", "Int32", "Float32"} {
						w.eval(Case{Acc: acc, Addr: 7}, res, lc)
					}
					for _, o := range orders7 {
						for _, acc := range []string{"DoubleRegister", "Uint32WithByteOrder", "Int32WithByteOrder", "Float32WithByteOrder"} {
							w.eval(Case{Acc: acc, Addr: 7, Order: o}, res, lc)
						}
					}
				}
				for _, c := range []uint16{0, 0xFFFF, 0x8000, 0x7FF0, 0x0001} {
					d8 := []byte{byte(a >> 8), byte(a), byte(b >> 8), byte(b), byte(c >> 8), byte(c), byte(b), byte(a)}
					w := newValueWindow(7, d8, 0, res)
					if w == nil {
						return
					}
					for _, acc := range []string{"Uint64", "Int64", "Float64"} {
						w.eval(Case{Acc: acc, Addr: 7}, res, lc)
					}
					for _, o := range orders7 {
						for _, acc := range []string{"QuadRegister", "Uint64WithByteOrder", "Int64WithByteOrder", "Float64WithByteOrder"} {
							w.eval(Case{Acc: acc, Addr: 7, Order: o}, res, lc)
						}
					}
				}
			}
		}
	})
	// the view's default order set more than once: only the last WithByteOrder counts
	jobs = append(jobs, func(lc *local) {
		for _, prior := range [][]uint8{{spec.OrdLE}, {spec.OrdLE | spec.OrdLowWordFirst}, {spec.OrdBE | spec.OrdLowWordFirst}, {spec.OrdLE, spec.OrdBE | spec.OrdLowWordFirst}} {
			// (a bare word-order flag as the final default: no byte order is named, so the bytes are read big-endian whatever
			// the view's default was before - the result is determined by the LAST setting alone)
			for _, def := range append(append([]uint8{}, orders7...), spec.OrdLowWordFirst, spec.OrdHighWordFirst) {
				w := newWindowFrom(100, 6, false, def, payload(6, false), res, prior...)
				if w == nil {
					return
				}
				for a := 99; a <= 106; a++ {
					w.sweepAddr(a, true, res, lc)
				}
			}
		}
	})
	for _, count := range counts {
		count := count
		startSet := map[int]bool{}
		for _, s := range lib.B16 {
			startSet[int(s)] = true
		}
		for _, s := range []int{65536 - count, 65535 - count, 65533 - count, 32768 - count, 32769 - count} {
			if s >= 0 {
				startSet[s] = true
			}
		}
		for s := range startSet {
			if s+count > 65536 {
				continue
			}
			s := s
			windows++
			jobs = append(jobs, func(lc *local) {
				defs := []uint8{0, spec.OrdLE | spec.OrdLowWordFirst}
				if thorough || count <= 4 {
					defs = orders7
				}
				for _, def := range defs {
					for _, poisoned := range []bool{false, true} {
						if poisoned && def != 0 && !thorough {
							continue
						}
						w := newWindow(s, count, poisoned, def, res)
						if w == nil {
							return
						}
						seen := map[int]bool{}
						for a := s - 4; a <= s+count+4; a++ {
							seen[a] = true
							edge := a <= s+1 || a >= s+count-4
							w.sweepAddr(a, edge && (thorough || count <= 8 || def == 0), res, lc)
						}
						for _, a := range lib.B16 {
							if !seen[int(a)] {
								w.sweepAddr(int(a), false, res, lc)
							}
						}
						// addresses half the address space away (index arithmetic in 16 bits)
						for _, a := range []int{s + 32768, s + 32767, s + 32769, s + 65535, s + 32768 + count - 1} {
							if a <= 65535 && !seen[a] {
								w.sweepAddr(a, false, res, lc)
							}
						}
					}
				}
			})
		}
	}
	var mu sync.Mutex
	var tot local
	ev.Par(len(jobs), runtime.NumCPU(), func(i int) {
		var lc local
		jobs[i](&lc)
		mu.Lock()
		tot.evals += lc.evals
		tot.inside += lc.inside
		mu.Unlock()
	})
	res.Add("evaluations", tot.evals)
	res.Add("windows", windows)
	res.DistinctAdd("nontrivial", tot.inside)
	res.Axis("register count of the window", map[bool]string{true: "full 1..125", false: "{1,2,3,4,5,8,124,125}"}[thorough], int64(len(counts)))
	res.Axis("window start", "B16 + windows ending exactly at 65535/65534/65532 and at 32767/32768", 37)
	res.Axis("requested address", "every address in [start-4, start+count+4] + B16 + start+32768 family", 170)
	res.Axis("accessor x order", "all 31 exported accessors x 7 explicit orders x up to 7 default orders", 31*7)
	res.Axis("string length", "full 1..255 at window edges, boundary lengths elsewhere", 255)
	res.Axis("payload presentation", "exact capacity / prefix of poisoned buffer", 2)
	res.Sample(Case{Start: 65535, Count: 1, Acc: "Uint16", Addr: 65535, Default: spec.DefaultOrder})
	res.Sample(Case{Start: 10, Count: 3, Acc: "Uint64WithByteOrder", Addr: 10, Order: 5, Default: spec.DefaultOrder})
	res.Sample(Case{Start: 0, Count: 125, Acc: "StringWithByteOrder", Addr: 32768, Len: 4, Order: 2, Default: spec.DefaultOrder})
}

func replay(check string, raw json.RawMessage, res *ev.Result) {
	var c Case
	json.Unmarshal(raw, &c)
	def := c.Default
	if def == spec.DefaultOrder {
		def = 0
	}
	w := newWindow(c.Start, c.Count, c.Poisoned, def, res)
	if c.BareDefault {
		def &^= spec.OrdBE
	}
	if len(c.Prior) > 0 || c.BareDefault {
		w = newWindowFrom(c.Start, c.Count, c.Poisoned, def, payload(c.Count, c.Poisoned), res, c.Prior...)
	}
	if c.Data != "" {
		d, _ := hex.DecodeString(c.Data)
		w = newValueWindow(c.Start, d, def, res)
	}
	if w == nil {
		return
	}
	var lc local
	w.eval(c, res, &lc)
}

func main() {
	ev.Main(ev.Spec{
		Property: prop, Level: "exploration",
		Rule: "every accessor on every window of the declared product; oracle = typed decoding of the window's wire bytes with explicit byte-significance tables (order names as documented by the library), " +
			"error iff some register of the access lies outside [start, start+count). non-trivial = accesses lying fully inside the window (value compared), distinct by construction",
		Assumptions: []string{"payload bytes are position-distinct (byte i = 7i+3 mod 256); accessors only move bytes",
			"only the seven documented byte/word order values 0,1,2,5,6,9,10 are enumerated", "string convention (swap within register for big-endian orders, NUL terminates, bytes become runes) taken from the library's pinned tests"},
		Run: run, Replay: replay,
	})
}

// earlyProbe: pairs of DIFFERENT reads of the SAME registers, made one after the other on one view, on bytes nothing else
// in this check uses, as the first thing the process does. Every other evaluation of this check is independent of the
// order in which evaluations happen only if the library keeps no state between reads; state that outlives a view (a
// process-wide cache keyed by the register bytes but not by everything that matters - the string length's parity, the
// accessor, the order - possibly admitting only its first N entries) is visible exactly here.
func earlyProbe(res *ev.Result, lc *local) {
	k := 0
	fresh := func(n int) []byte {
		k++
		d := make([]byte, n)
		for i := range d {
			d[i] = byte(0x80 + (k*11+i*37)%0x7F)
		}
		return d
	}
	type acc struct {
		name  string
		order uint8
		len   int
	}
	var strs, nums []acc
	for _, o := range []uint8{spec.OrdBE, spec.OrdLE} {
		for l := 1; l <= 8; l++ {
			strs = append(strs, acc{"StringWithByteOrder", o, l})
		}
	}
	for _, o := range []uint8{spec.OrdBE | spec.OrdHighWordFirst, spec.OrdLE | spec.OrdLowWordFirst} {
		for _, a := range []string{"Uint32WithByteOrder", "Int32WithByteOrder", "Float32WithByteOrder", "Uint64WithByteOrder", "Int64WithByteOrder", "Float64WithByteOrder"} {
			nums = append(nums, acc{a, o, 0})
		}
	}
	nums = append(nums, acc{"Uint16", 0, 0}, acc{"Int16", 0, 0}, acc{"Register", 0, 0}, acc{"Uint32", 0, 0}, acc{"Uint64", 0, 0})
	pair := func(a, b acc) {
		w := newValueWindow(100, fresh(8), 0, res)
		if w == nil {
			return
		}
		for _, x := range []acc{a, b} {
			w.eval(Case{Acc: x.name, Addr: 100, Order: x.order, Len: x.len}, res, lc)
		}
	}
	for _, a := range strs {
		for _, b := range strs {
			pair(a, b)
		}
	}
	for _, a := range nums {
		for _, b := range nums {
			pair(a, b)
		}
	}
}
