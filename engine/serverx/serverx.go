// Package serverx is the shared harness for the server-side checks (C15, C16, C17): a ModbusHandler backed by the
// reference device, the request frame catalogue, and the reply oracle.
package serverx

import (
	"context"
	"errors"
	"fmt"
	"strings"

	"github.com/aldas/go-modbus-client/packet"
	"verif/lib"
	"verif/spec"
)

// Call is one handler invocation.
type Call struct {
	Frame []byte
}

// Handler answers like the reference device and logs its calls. Mode selects what it returns.
type Handler struct {
	Dev   *spec.Device
	Mode  string // "device", "typed-error", "generic-error", "panic", "nil-nil"
	Code  uint8  // exception code for typed errors
	Calls []Call
	Hook  func() // called at the start of every Handle (scheduling point / virtual sleep in Engine C harnesses)
	// HookCtx is Hook with the handler's context (which carries the client's remote address)
	HookCtx func(ctx context.Context)
}

var ErrGeneric = errors.New("handler failed")

func (h *Handler) Handle(ctx context.Context, req packet.Request) (packet.Response, error) {
	frame := req.Bytes()
	h.Calls = append(h.Calls, Call{Frame: append([]byte(nil), frame...)})
	if h.Hook != nil {
		h.Hook()
	}
	if h.HookCtx != nil {
		h.HookCtx(ctx)
	}
	if strings.HasSuffix(h.Mode, "-once") {
		m := strings.TrimSuffix(h.Mode, "-once")
		h.Mode = "device"
		switch m {
		case "typed-error":
			return nil, packet.NewErrorParseTCP(h.Code, "handler refuses")
		case "generic-error":
			return nil, ErrGeneric
		case "nil-nil":
			return nil, nil
		}
	}
	switch h.Mode {
	case "typed-error":
		return nil, packet.NewErrorParseTCP(h.Code, "handler refuses")
	case "wrapped-typed-error": // the typed error inside a %w chain: errors.As still finds it
		return nil, fmt.Errorf("handler: request refused: %w", packet.NewErrorParseTCP(h.Code, "handler refuses"))
	case "generic-error":
		return nil, ErrGeneric
	case "panic":
		panic("handler panic")
	case "nil-nil":
		return nil, nil
	}
	r, err := spec.DecodeReq(frame, false)
	if err != nil {
		return nil, fmt.Errorf("harness handler: request does not decode: %w", err)
	}
	resp := h.Dev.Handle(r)
	if resp.Exc {
		return nil, packet.NewErrorParseTCP(resp.ExCode, "device exception")
	}
	return packet.ParseTCPResponse(resp.Frame(false))
}

// NewDevice returns a fresh reference device (always the same initial image).
func NewDevice() *spec.Device { return pristine.Clone() }

var pristine = spec.NewDevice(spec.ImageHash, spec.BitImage)

// Frame is one catalogue entry: a complete, length-delimited request frame and what a conforming server does with it.
type Frame struct {
	Name  string
	Bytes []byte
	Valid bool  // reaches the handler
	Exc   uint8 // expected exception code when !Valid (0 = any)
}

// Catalogue returns the frame catalogue of C15: valid requests of every function (also at boundary quantities), an
// unsupported function code, an out-of-range quantity, an inconsistent byte count.
func Catalogue(tidBase uint16) []Frame {
	var out []Frame
	add := func(name string, r spec.Req) {
		r.Unit, r.TID = 0x11, tidBase+uint16(len(out))
		out = append(out, Frame{Name: name, Bytes: r.Frame(false), Valid: true})
	}
	add("fc1", spec.Req{FC: 1, Addr: 0x13, Qty: 19})
	add("fc2", spec.Req{FC: 2, Addr: 0xC4, Qty: 22})
	add("fc3", spec.Req{FC: 3, Addr: 0x6B, Qty: 3})
	add("fc4", spec.Req{FC: 4, Addr: 8, Qty: 1})
	add("fc5", spec.Req{FC: 5, Addr: 0xAC, Value: spec.CoilOn})
	add("fc6", spec.Req{FC: 6, Addr: 1, Value: 3})
	add("fc15", spec.Req{FC: 15, Addr: 0x13, Qty: 10, Data: []byte{0xCD, 0x01}})
	add("fc16", spec.Req{FC: 16, Addr: 1, Qty: 2, Data: []byte{0, 10, 1, 2}})
	add("fc17", spec.Req{FC: 17})
	add("fc23", spec.Req{FC: 23, Addr: 3, Qty: 6, WAddr: 14, WQty: 3, Data: []byte{0, 255, 0, 255, 0, 255}})
	add("fc3-max", spec.Req{FC: 3, Addr: 0, Qty: 125})
	add("fc1-125", spec.Req{FC: 1, Addr: 0, Qty: 125})
	add("fc16-max", spec.Req{FC: 16, Addr: 100, Qty: 123, Data: lib.Pattern("pos", 246, 0)})
	bad := func(name string, b []byte, code uint8) {
		b[0], b[1] = byte((tidBase+uint16(len(out)))>>8), byte(tidBase+uint16(len(out)))
		out = append(out, Frame{Name: name, Bytes: b, Exc: code})
	}
	bad("unsupported-fc", spec.TCP(0, 0x11, []byte{0x2B, 0x0E, 0x01, 0x00}), spec.ExIllegalFunc)
	bad("qty-out-of-range", spec.Req{FC: 3, Unit: 0x11, Addr: 0, Qty: 126}.Frame(false), spec.ExIllegalValue)
	bad("bytecount-inconsistent", spec.TCP(0, 0x11, []byte{0x10, 0, 1, 0, 2, 5, 0, 10, 1, 2}), 0)
	// a well-formed request that only the HANDLER refuses (address range leaving the table): the error path behind the
	// handler call, as opposed to the parse errors above (appended last: positions of the entries above are relied upon)
	out = append(out, Frame{Name: "fc3-refused", Bytes: spec.Req{FC: 3, Unit: 0x11, TID: tidBase + uint16(len(out)), Addr: 0xFFFF, Qty: 2}.Frame(false), Valid: true, Exc: spec.ExIllegalAddress})
	return out
}

// CheckReply validates one reply against the request frame it answers. It returns "" or a description of what is
// wrong; kind classifies the problem for violation signatures.
type ReplyExpect struct {
	Request     []byte
	Valid       bool // a normal response is expected (checked against want if non-nil)
	Want        []byte
	ExcCode     int // expected exception code, -1 = any
	AllowNormal bool
}

func CheckReply(reply []byte, e ReplyExpect) (kind, msg string) {
	rq := e.Request
	if len(reply) < 9 {
		return "reply-too-short", fmt.Sprintf("reply %x is shorter than 9 bytes", reply)
	}
	if reply[2] != 0 || reply[3] != 0 {
		return "reply-bad-protocol-id", fmt.Sprintf("reply %x: protocol id not 0", reply)
	}
	l := int(reply[4])<<8 | int(reply[5])
	if l != len(reply)-6 || l > 254 {
		return "reply-bad-length-field", fmt.Sprintf("reply %x: MBAP length %d, bytes following %d", reply, l, len(reply)-6)
	}
	if reply[0] != rq[0] || reply[1] != rq[1] {
		return "reply-wrong-transaction-id", fmt.Sprintf("reply %x: transaction id %02x%02x, request %02x%02x", reply, reply[0], reply[1], rq[0], rq[1])
	}
	if reply[6] != rq[6] {
		return "reply-wrong-unit-id", fmt.Sprintf("reply %x: unit id %d, request %d", reply, reply[6], rq[6])
	}
	fc := rq[7]
	if reply[7]&0x80 != 0 {
		if e.Valid && !e.AllowNormal {
			return "exception-for-valid-request", fmt.Sprintf("reply %x is an exception but request %x is valid", reply, rq)
		}
		if len(reply) != 9 {
			return "exception-not-9-bytes", fmt.Sprintf("exception reply %x has %d bytes", reply, len(reply))
		}
		if reply[7] != fc|0x80 {
			return "exception-wrong-function", fmt.Sprintf("exception reply %x: function %#02x, request function %#02x", reply, reply[7], fc)
		}
		if e.ExcCode >= 0 && int(reply[8]) != e.ExcCode {
			return "exception-wrong-code", fmt.Sprintf("exception reply %x: code %d, want %d", reply, reply[8], e.ExcCode)
		}
		return "", ""
	}
	if !e.Valid {
		return "normal-reply-for-invalid-request", fmt.Sprintf("reply %x is not an exception but request %x must be refused", reply, rq)
	}
	if reply[7] != fc {
		return "reply-wrong-function", fmt.Sprintf("reply %x: function %d, request %d", reply, reply[7], fc)
	}
	if _, err := spec.DecodeResp(reply, false); err != nil {
		return "reply-not-wellformed", fmt.Sprintf("reply %x does not decode: %v", reply, err)
	}
	if e.Want != nil && string(e.Want) != string(reply) {
		return "reply-wrong-content", fmt.Sprintf("reply %x, reference %x", reply, e.Want)
	}
	return "", ""
}

// SplitReplies cuts a byte stream of replies into ADUs using the MBAP length field.
func SplitReplies(b []byte) (frames [][]byte, rest []byte) {
	for len(b) >= 6 {
		n := 6 + (int(b[4])<<8 | int(b[5]))
		if n > len(b) {
			break
		}
		frames = append(frames, b[:n])
		b = b[n:]
	}
	return frames, b
}
