// Package ev is the shared reporting layer of every check: counters, distinct-case accounting, violations with
// machine-computed signatures, known-findings matching, replay artefacts, sharded execution and the evidence file.
package ev

import (
	"crypto/sha256"
	"encoding/hex"
	"encoding/json"
	"fmt"
	"hash/fnv"
	"os"
	"os/exec"
	"path/filepath"
	"runtime/debug"
	"sort"
	"strconv"
	"strings"
	"sync"
	"time"
)

const verifRoot = "/verif"

// outRoot is where evidence/ and replays/ are written: /verif, unless VERIF_OUT redirects it (seed testing on scratch
// copies must not overwrite the evidence of the real tree).
func outRoot() string {
	if d := os.Getenv("VERIF_OUT"); d != "" {
		return d
	}
	return verifRoot
}

// Violation is one concrete disagreement between the implementation and the oracle.
type Violation struct {
	Property string         `json:"property"`
	Check    string         `json:"check"` // sub-check name; selects the replay function
	Kind     string         `json:"kind"`  // failure kind, e.g. "wrong-bytes", "panic", "accepts-illegal"
	Attrs    map[string]any `json:"attrs"` // class of the failing input + what was observed (used by known-findings predicates)
	Msg      string         `json:"msg"`
	Case     any            `json:"case"` // enough to replay the case without the explorer
	Count    int64          `json:"count"`
}

// Sig is the signature under which violations are de-duplicated: kind plus the attributes named in sigKeys.
func (v *Violation) Sig() string {
	keys := make([]string, 0, len(v.Attrs))
	for k := range v.Attrs {
		if strings.HasPrefix(k, "_") { // attributes starting with "_" are instance detail, not class
			continue
		}
		keys = append(keys, k)
	}
	sort.Strings(keys)
	var sb strings.Builder
	sb.WriteString(v.Check + "/" + v.Kind)
	for _, k := range keys {
		fmt.Fprintf(&sb, "/%s=%v", k, v.Attrs[k])
	}
	return sb.String()
}

// Finding is one entry of /verif/known_findings.json.
type Finding struct {
	Property string         `json:"property"`
	ID       string         `json:"id"`
	Status   string         `json:"status"` // "open" or "fixed"
	What     string         `json:"what"`
	Site     string         `json:"site"`
	Commit   string         `json:"commit,omitempty"`
	Match    map[string]any `json:"match"` // "check", "kind" and attribute predicates
}

func num(x any) (float64, bool) {
	switch t := x.(type) {
	case int:
		return float64(t), true
	case int64:
		return float64(t), true
	case uint8:
		return float64(t), true
	case uint16:
		return float64(t), true
	case uint32:
		return float64(t), true
	case uint64:
		return float64(t), true
	case float64:
		return t, true
	case json.Number:
		f, err := t.Float64()
		return f, err == nil
	}
	return 0, false
}

func matchValue(pred any, got any) bool {
	switch p := pred.(type) {
	case map[string]any:
		if in, ok := p["in"]; ok {
			for _, e := range in.([]any) {
				if matchValue(e, got) {
					return true
				}
			}
			return false
		}
		g, ok := num(got)
		if !ok {
			return false
		}
		if mn, ok := p["min"]; ok {
			m, _ := num(mn)
			if g < m {
				return false
			}
		}
		if mx, ok := p["max"]; ok {
			m, _ := num(mx)
			if g > m {
				return false
			}
		}
		return true
	default:
		if a, ok := num(pred); ok {
			b, ok2 := num(got)
			return ok2 && a == b
		}
		return fmt.Sprint(pred) == fmt.Sprint(got)
	}
}

// Matches reports whether the open finding covers the violation: same check and kind, and every attribute
// predicate of the entry is satisfied by the violation's attributes (a missing attribute never matches).
func (f *Finding) Matches(v *Violation) bool {
	if f.Status != "open" || f.Property != v.Property {
		return false
	}
	return f.matchesNoProp(v)
}

// CurrentProperty is set by Main; findings of other properties never match.
var CurrentProperty string

func (f *Finding) matchesNoProp(v *Violation) bool {
	if f.Property != CurrentProperty {
		return false
	}
	for k, pred := range f.Match {
		switch k {
		case "check":
			if !matchValue(pred, v.Check) {
				return false
			}
		case "kind":
			if !matchValue(pred, v.Kind) {
				return false
			}
		default:
			got, ok := v.Attrs[k]
			if !ok || !matchValue(pred, got) {
				return false
			}
		}
	}
	return true
}

func LoadFindings() []Finding {
	b, err := os.ReadFile(filepath.Join(verifRoot, "known_findings.json"))
	if err != nil {
		return nil
	}
	var fs []Finding
	if err := json.Unmarshal(b, &fs); err != nil {
		fmt.Fprintf(os.Stderr, "known_findings.json: %v\n", err)
		os.Exit(3)
	}
	return fs
}

// Result is what one shard (or a whole run) produces.
type Result struct {
	mu sync.Mutex

	Counters   map[string]int64      `json:"counters"`
	Distinct   map[string]int64      `json:"distinct"` // per named set: number of distinct keys seen
	Samples    []any                 `json:"samples"`
	Axes       []map[string]any      `json:"axes"`
	Violations map[string]*Violation `json:"violations"` // by signature
	Outcomes   map[string]int64      `json:"outcomes"`
	Incomplete []string              `json:"incomplete"` // sub-spaces not completed (deadline)
	Notes      []string              `json:"notes"`
	Matched    map[string]int64      `json:"matched"` // known finding id -> number of violation instances it covered
	// SetKeys carries the members of the small distinct sets from a shard to the parent, so that the parent can take
	// the union (sets larger than setKeysCap are only summed, which over-counts members seen by several shards).
	SetKeys map[string][]uint64 `json:"set_keys,omitempty"`

	sets     map[string]map[uint64]struct{}
	summed   map[string]bool
	findings []Finding
}

func NewResult() *Result {
	return &Result{Counters: map[string]int64{}, Distinct: map[string]int64{}, Violations: map[string]*Violation{},
		Outcomes: map[string]int64{}, sets: map[string]map[uint64]struct{}{}, Matched: map[string]int64{}, findings: LoadFindings()}
}

func (r *Result) Add(name string, n int64) {
	r.mu.Lock()
	r.Counters[name] += n
	r.mu.Unlock()
}

const distinctCap = 1 << 21
const setKeysCap = 1 << 14

// exportSets fills SetKeys before a shard's result is marshalled.
func (r *Result) exportSets() {
	r.SetKeys = map[string][]uint64{}
	for name, m := range r.sets {
		if len(m) <= setKeysCap {
			ks := make([]uint64, 0, len(m))
			for k := range m {
				ks = append(ks, k)
			}
			r.SetKeys[name] = ks
		}
	}
}

// Seen records key in the named distinct set (capped: once the cap is hit the count stays there, i.e. is a lower bound).
func (r *Result) Seen(set string, key []byte) {
	h := fnv.New64a()
	h.Write(key)
	r.SeenHash(set, h.Sum64())
}

func (r *Result) SeenHash(set string, k uint64) {
	r.mu.Lock()
	m := r.sets[set]
	if m == nil {
		m = map[uint64]struct{}{}
		r.sets[set] = m
	}
	if len(m) < distinctCap {
		m[k] = struct{}{}
		r.Distinct[set] = int64(len(m))
	}
	r.mu.Unlock()
}

// DistinctAdd adds n to a distinct count for cases that are pairwise different by construction of the enumeration
// (each point of a product space is visited exactly once), so no hash set is needed.
func (r *Result) DistinctAdd(set string, n int64) {
	r.mu.Lock()
	r.Distinct[set] += n
	r.mu.Unlock()
}

func (r *Result) Outcome(o string) {
	r.mu.Lock()
	r.Outcomes[o]++
	r.mu.Unlock()
}

func (r *Result) Sample(s any) {
	r.mu.Lock()
	if len(r.Samples) < 6 {
		r.Samples = append(r.Samples, s)
	}
	r.mu.Unlock()
}

func (r *Result) Axis(name, kind string, size int64) {
	r.mu.Lock()
	r.Axes = append(r.Axes, map[string]any{"axis": name, "kind": kind, "size": size})
	r.mu.Unlock()
}

func (r *Result) Note(s string) {
	r.mu.Lock()
	r.Notes = append(r.Notes, s)
	r.mu.Unlock()
}

// Violate records a violation (de-duplicated by signature; the first instance is kept as the example).
func (r *Result) Violate(v Violation) {
	r.mu.Lock()
	defer r.mu.Unlock()
	// known findings are matched per instance (so predicates may use instance attributes), before de-duplication
	for i := range r.findings {
		f := &r.findings[i]
		if f.Status == "open" && f.matchesNoProp(&v) {
			r.Matched[f.ID]++
			return
		}
	}
	sig := v.Sig()
	if old, ok := r.Violations[sig]; ok {
		old.Count++
		return
	}
	if len(r.Violations) >= 400 {
		r.Counters["violations_dropped"]++
		return
	}
	v.Count = 1
	vv := v
	r.Violations[sig] = &vv
}

func (r *Result) merge(o *Result) {
	for k, v := range o.Counters {
		r.Counters[k] += v
	}
	for k, v := range o.Distinct {
		if keys, ok := o.SetKeys[k]; ok {
			if _, summed := r.summed[k]; !summed {
				m := r.sets[k]
				if m == nil {
					m = map[uint64]struct{}{}
					r.sets[k] = m
				}
				for _, x := range keys {
					m[x] = struct{}{}
				}
				r.Distinct[k] = int64(len(m))
				continue
			}
		}
		if r.summed == nil {
			r.summed = map[string]bool{}
		}
		if m := r.sets[k]; m != nil && !r.summed[k] {
			// a set that was a union so far and now meets a shard that could not export its members
			r.Distinct[k] = int64(len(m))
		}
		r.summed[k] = true
		r.Distinct[k] += v
	}
	for k, v := range o.Outcomes {
		r.Outcomes[k] += v
	}
	for k, v := range o.Matched {
		r.Matched[k] += v
	}
	for _, s := range o.Samples {
		if len(r.Samples) < 6 {
			r.Samples = append(r.Samples, s)
		}
	}
	if len(r.Axes) == 0 {
		r.Axes = o.Axes
	}
	for sig, v := range o.Violations {
		if old, ok := r.Violations[sig]; ok {
			old.Count += v.Count
		} else {
			r.Violations[sig] = v
		}
	}
	r.Incomplete = append(r.Incomplete, o.Incomplete...)
	for _, n := range o.Notes {
		dup := false
		for _, m := range r.Notes {
			if m == n {
				dup = true
			}
		}
		if !dup {
			r.Notes = append(r.Notes, n)
		}
	}
}

// Spec describes a check to the runner.
type Spec struct {
	Property    string
	Level       string // evidence level
	Rule        string
	Assumptions []string
	// Run executes shard `shard` of `n` for the given tier and fills res.
	Run func(tier string, shard, n int, res *Result)
	// Replay re-executes one recorded case (the Case field of a violation, as decoded JSON).
	Replay func(check string, c json.RawMessage, res *Result)
	// Shards: number of worker processes (0 = run in-process, single shard).
	Shards func(tier string) int
	// ShardProcs: GOMAXPROCS of each worker process (0 = 2). The cooperative scheduler hands over between goroutines
	// several times per microsecond-scale step and is ~4x faster on a single P.
	ShardProcs int
	// Post runs once in the parent process after all shards have been merged (auxiliary passes).
	Post func(tier string, res *Result)
	// Finish computes the level-specific coverage keys from the merged result.
	Finish func(tier string, res *Result, cov map[string]any)
	// MinOutcomes etc: vacuity guard; return non-empty string to end INCONCLUSIVE.
	Vacuity func(tier string, res *Result) string
}

func Tier(args []string) string {
	t := "quick"
	if len(args) > 0 {
		t = args[0]
	}
	if e := os.Getenv("VERIF_TIER"); e != "" {
		t = e
	}
	if t != "quick" && t != "thorough" {
		fmt.Fprintf(os.Stderr, "bad tier %q\n", t)
		os.Exit(2)
	}
	return t
}

func Seed() int64 {
	s, _ := strconv.ParseInt(os.Getenv("VERIF_SEED"), 10, 64)
	return s
}

// Deadline returns the internal deadline for thorough runs (never an oracle: hitting it yields exhaustive:false).
func Deadline(start time.Time, tier string, quick, thorough time.Duration) time.Time {
	if tier == "quick" {
		return start.Add(quick)
	}
	return start.Add(thorough)
}

// Main is the entry point used by every check binary.
//
//	<bin> quick|thorough          run the check
//	<bin> --replay <path>         replay one recorded violation
//	(internal) VERIF_SHARD=i/n    run one shard and print its Result as JSON on stdout
func Main(s Spec) {
	debug.SetGCPercent(400)
	CurrentProperty = s.Property
	args := os.Args[1:]
	if len(args) >= 2 && args[0] == "--replay" {
		os.Exit(replay(s, args[1]))
	}
	tier := Tier(args)
	if sh := os.Getenv("VERIF_SHARD"); sh != "" {
		var i, n int
		fmt.Sscanf(sh, "%d/%d", &i, &n)
		res := NewResult()
		func() {
			defer func() {
				if rec := recover(); rec != nil {
					notePanic(res, fmt.Sprintf("shard %d", i), rec, debug.Stack())
				}
			}()
			s.Run(tier, i, n, res)
		}()
		res.exportSets()
		b, _ := json.Marshal(res)
		os.Stdout.Write(b)
		return
	}
	start := time.Now()
	res := NewResult()
	n := 0
	if s.Shards != nil {
		n = s.Shards(tier)
	}
	if n <= 1 {
		func() {
			defer func() {
				if rec := recover(); rec != nil {
					notePanic(res, "", rec, debug.Stack())
				}
			}()
			s.Run(tier, 0, 1, res)
		}()
	} else {
		var wg sync.WaitGroup
		outs := make([]*Result, n)
		errs := make([]error, n)
		for i := 0; i < n; i++ {
			wg.Add(1)
			go func(i int) {
				defer wg.Done()
				cmd := exec.Command(os.Args[0], tier)
				procs := s.ShardProcs
				if procs == 0 {
					procs = 2
				}
				cmd.Env = append(os.Environ(), fmt.Sprintf("VERIF_SHARD=%d/%d", i, n), fmt.Sprintf("GOMAXPROCS=%d", procs))
				cmd.Stderr = os.Stderr
				out, err := cmd.Output()
				if err != nil {
					errs[i] = fmt.Errorf("shard %d: %v", i, err)
					return
				}
				r := NewResult()
				if err := json.Unmarshal(out, r); err != nil {
					errs[i] = fmt.Errorf("shard %d: bad output: %v", i, err)
					return
				}
				outs[i] = r
			}(i)
		}
		wg.Wait()
		for i := 0; i < n; i++ {
			if errs[i] != nil {
				fmt.Printf("INCONCLUSIVE property=%s %v\n", s.Property, errs[i])
				os.Exit(3)
			}
			res.merge(outs[i])
		}
	}
	if s.Post != nil {
		s.Post(tier, res)
	}
	os.Exit(finish(s, tier, res, start))
}

func finish(s Spec, tier string, res *Result, start time.Time) int {
	for _, n := range res.Notes {
		if strings.HasPrefix(n, "HARNESS-PANIC") {
			fmt.Printf("INCONCLUSIVE property=%s %s\n", s.Property, n)
			return 3
		}
	}
	findings := LoadFindings()
	matched := res.Matched
	var unmatched []*Violation
	sigs := make([]string, 0, len(res.Violations))
	for sig := range res.Violations {
		sigs = append(sigs, sig)
	}
	sort.Strings(sigs)
	for _, sig := range sigs {
		v := res.Violations[sig]
		v.Property = s.Property
		hit := false
		for i := range findings {
			if findings[i].Matches(v) {
				matched[findings[i].ID] += v.Count
				hit = true
				break
			}
		}
		if !hit {
			unmatched = append(unmatched, v)
		}
	}
	var stale []string
	for _, f := range findings {
		if f.Property == s.Property && f.Status == "open" {
			if c, ok := matched[f.ID]; ok {
				fmt.Printf("KNOWN-FINDING: property=%s %s [%s, %d cases] %s\n", s.Property, f.ID, f.Site, c, f.What)
			} else {
				stale = append(stale, f.ID)
			}
		}
	}
	exit := 0
	total := int64(0)
	for i, v := range unmatched {
		total += v.Count
		if i >= 25 {
			continue
		}
		path := writeReplay(v)
		fmt.Printf("VIOLATION property=%s replay=%s\n", s.Property, path)
		fmt.Printf("  %s/%s x%d: %s\n", v.Check, v.Kind, v.Count, v.Msg)
		exit = 1
	}
	if len(unmatched) > 25 {
		fmt.Printf("  ... and %d more violation signatures\n", len(unmatched)-25)
	}
	if exit == 0 && s.Vacuity != nil {
		if why := s.Vacuity(tier, res); why != "" {
			fmt.Printf("INCONCLUSIVE property=%s vacuity guard: %s\n", s.Property, why)
			writeEvidence(s, tier, res, start, matched, stale, total)
			return 3
		}
	}
	writeEvidence(s, tier, res, start, matched, stale, total)
	if exit == 0 {
		ex := "exhaustive over the declared space"
		if len(res.Incomplete) > 0 {
			ex = fmt.Sprintf("NOT exhaustive: %d sub-spaces cut by the internal deadline", len(res.Incomplete))
		}
		fmt.Printf("OK property=%s tier=%s evaluations=%d (%s) wall=%.1fs\n", s.Property, tier, res.Counters["evaluations"], ex, time.Since(start).Seconds())
	}
	return exit
}

func writeReplay(v *Violation) string {
	b, _ := json.MarshalIndent(v, "", " ")
	h := sha256.Sum256(b)
	dir := filepath.Join(outRoot(), "replays", v.Property)
	os.MkdirAll(dir, 0o755)
	p := filepath.Join(dir, hex.EncodeToString(h[:6])+".json")
	os.WriteFile(p, b, 0o644)
	return p
}

func replay(s Spec, path string) int {
	b, err := os.ReadFile(path)
	if err != nil {
		fmt.Fprintln(os.Stderr, err)
		return 2
	}
	var raw struct {
		Check string          `json:"check"`
		Case  json.RawMessage `json:"case"`
	}
	if err := json.Unmarshal(b, &raw); err != nil {
		fmt.Fprintln(os.Stderr, err)
		return 2
	}
	if s.Replay == nil {
		fmt.Fprintln(os.Stderr, "this check has no replay function")
		return 2
	}
	res := NewResult()
	if raw.Check == "library" {
		// a panic inside the library ended a run: run the quick tier again in this process and report it again
		func() {
			defer func() {
				if rec := recover(); rec != nil {
					notePanic(res, "", rec, debug.Stack())
				}
			}()
			s.Run("quick", 0, 1, res)
		}()
		for _, v := range res.Violations {
			if v.Check == "library" {
				fmt.Printf("REPLAY property=%s reproduced %s/%s: %s\n", s.Property, v.Check, v.Kind, v.Msg)
				return 1
			}
		}
		fmt.Printf("REPLAY property=%s case passes (no panic inside the library)\n", s.Property)
		return 0
	}
	s.Replay(raw.Check, raw.Case, res)
	if len(res.Violations) == 0 {
		fmt.Printf("REPLAY property=%s case passes (no violation reproduced)\n", s.Property)
		return 0
	}
	for _, v := range res.Violations {
		fmt.Printf("REPLAY property=%s reproduced %s/%s: %s\n", s.Property, v.Check, v.Kind, v.Msg)
	}
	return 1
}

func writeEvidence(s Spec, tier string, res *Result, start time.Time, matched map[string]int64, stale []string, unmatched int64) {
	cov := map[string]any{}
	cov["evaluations"] = res.Counters["evaluations"]
	dn := int64(0)
	if v, ok := res.Distinct["nontrivial"]; ok {
		dn = v
	}
	cov["distinct_nontrivial"] = dn
	cov["rule"] = s.Rule
	samples := res.Samples
	if samples == nil {
		samples = []any{}
	}
	cov["samples"] = samples
	cov["exhaustive"] = len(res.Incomplete) == 0
	if len(res.Incomplete) > 0 {
		cov["incomplete_subspaces"] = res.Incomplete
	}
	cov["axes"] = res.Axes
	cov["counters"] = res.Counters
	cov["distinct_sets"] = res.Distinct
	cov["distinct_outcomes"] = len(res.Outcomes)
	if len(res.Outcomes) <= 64 {
		cov["outcomes"] = res.Outcomes
	}
	cov["known_findings_matched"] = matched
	cov["stale_known_findings"] = stale
	if len(res.Notes) > 0 {
		cov["notes"] = res.Notes
	}
	if s.Finish != nil {
		s.Finish(tier, res, cov)
	}
	e := map[string]any{
		"property_id": s.Property,
		"tier":        tier,
		"seed":        Seed(),
		"level":       s.Level,
		"coverage":    cov,
		"assumptions": s.Assumptions,
		"wall_s":      time.Since(start).Seconds(),
		"violations":  unmatched,
	}
	b, _ := json.MarshalIndent(e, "", " ")
	os.MkdirAll(filepath.Join(outRoot(), "evidence"), 0o755)
	os.WriteFile(filepath.Join(outRoot(), "evidence", s.Property+".json"), append(b, '\n'), 0o644)
}

// RacePass runs the free-running race-detector pass (go test -race on verif/racepass, untransformed library) and
// records every report as a violation of kind "data-race". It is auxiliary evidence: sampling, never the deciding step.
func RacePass(res *Result, runPattern string, count int) map[string]any {
	start := time.Now()
	args := []string{"test"}
	if mf := os.Getenv("VERIF_MODFILE"); mf != "" { // checks running against a scratch copy of the repository
		args = append(args, "-modfile", mf)
	}
	args = append(args, "-race", "-count="+strconv.Itoa(count), "-run", runPattern, "./racepass/")
	cmd := exec.Command("go", args...)
	cmd.Dir = filepath.Join(verifRoot, "engine")
	out, err := cmd.CombinedOutput()
	text := string(out)
	races := strings.Count(text, "WARNING: DATA RACE")
	info := map[string]any{"cmd": strings.Join(cmd.Args, " "), "data_race_reports": races, "wall_s": time.Since(start).Seconds(), "kind": "auxiliary (sampling; free-running goroutines, real time, untransformed sources)"}
	switch {
	case races > 0:
		i := strings.Index(text, "WARNING: DATA RACE")
		rep := text[i:]
		if len(rep) > 6000 {
			rep = rep[:6000]
		}
		site := ""
		for _, l := range strings.Split(rep, "\n") {
			if strings.Contains(l, "go-modbus-client") || strings.Contains(l, "/repo/") {
				site = strings.TrimSpace(l)
				break
			}
		}
		res.Violate(Violation{Check: "race-pass", Kind: "data-race", Attrs: map[string]any{"site": site},
			Msg: fmt.Sprintf("go test -race reported %d data race(s); first at %s", races, site), Case: map[string]any{"race_log": rep, "cmd": info["cmd"]}})
	case err != nil && strings.Contains(text, "panic:"):
		i := strings.Index(text, "panic:")
		rep := text[i:]
		if len(rep) > 3000 {
			rep = rep[:3000]
		}
		res.Violate(Violation{Check: "race-pass", Kind: "panic", Attrs: map[string]any{}, Msg: "free-running pass panicked: " + strings.SplitN(rep, "\n", 2)[0], Case: map[string]any{"log": rep}})
	case err != nil && !strings.Contains(text, "FAIL"):
		info["error"] = fmt.Sprintf("could not run: %v: %s", err, firstLines(text, 5))
	}
	info["ok"] = err == nil
	return info
}

func firstLines(s string, n int) string {
	l := strings.Split(s, "\n")
	if len(l) > n {
		l = l[:n]
	}
	return strings.Join(l, " | ")
}

// Hex renders bytes for messages and cases.
func Hex(b []byte) string {
	if len(b) > 64 {
		return hex.EncodeToString(b[:48]) + fmt.Sprintf("...(%d bytes)", len(b))
	}
	return hex.EncodeToString(b)
}

// Par runs f(i) for i in [0,n) on w goroutines.
func Par(n, w int, f func(i int)) {
	if w < 1 {
		w = 1
	}
	var wg sync.WaitGroup
	var pmu sync.Mutex
	var first *ParPanic
	ch := make(chan int, w)
	for k := 0; k < w; k++ {
		wg.Add(1)
		go func() {
			defer wg.Done()
			for i := range ch {
				func() {
					// a panic in a worker would kill the process with no verdict at all: carry it to the caller instead
					defer func() {
						if rec := recover(); rec != nil {
							pmu.Lock()
							if first == nil {
								first = &ParPanic{Value: rec, Stack: debug.Stack()}
							}
							pmu.Unlock()
						}
					}()
					f(i)
				}()
			}
		}()
	}
	for i := 0; i < n; i++ {
		ch <- i
	}
	close(ch)
	wg.Wait()
	if first != nil {
		panic(first)
	}
}

// ParPanic is the panic of a Par worker, re-raised in the caller with the worker's stack.
type ParPanic struct {
	Value any
	Stack []byte
}

func (p *ParPanic) Error() string { return fmt.Sprint(p.Value) }

// notePanic classifies a panic that ended a run. If it was raised INSIDE the library under test (first frame above the
// panic machinery belongs to the repository's packages, not to the shims or the harness), the library panicked on an
// input the check gave it - on the unchanged tree no check panics, so this is the code under test misbehaving, and it
// is reported as the violation it is (every property demands an outcome, not a crash, for the inputs it quantifies
// over). Anything else is a defect of the harness: INCONCLUSIVE.
func notePanic(res *Result, where string, rec any, stack []byte) {
	if pp, ok := rec.(*ParPanic); ok {
		rec, stack = pp.Value, pp.Stack
	}
	if fn := panicOrigin(string(stack)); fn != "" {
		res.Incomplete = append(res.Incomplete, "run ended by a panic inside the library")
		res.Violate(Violation{Check: "library", Kind: "panic-in-library", Attrs: map[string]any{"where": fn},
			Msg:  fmt.Sprintf("the library panicked in %s while the check was running: %v\n%s", fn, rec, trimStack(string(stack))),
			Case: map[string]any{"panic": fmt.Sprint(rec), "function": fn}})
		return
	}
	res.Note(fmt.Sprintf("HARNESS-PANIC %s: %v\n%s", where, rec, stack))
}

const libPrefix = "github.com/aldas/go-modbus-client"

// panicOrigin returns the function that raised the panic if it belongs to the library under test, "" otherwise.
func panicOrigin(stack string) string {
	lines := strings.Split(stack, "\n")
	seenPanic := false
	for _, l := range lines {
		if strings.HasPrefix(l, "\t") || l == "" {
			continue
		}
		if strings.HasPrefix(l, "panic(") {
			seenPanic = true
			continue
		}
		if !seenPanic {
			continue
		}
		if strings.HasPrefix(l, "runtime.") || strings.HasPrefix(l, "runtime/") {
			continue // goPanicIndex, panicmem, sigpanic, ...
		}
		// first frame above the panic machinery
		if strings.HasPrefix(l, libPrefix) && !strings.Contains(l, "/verifshim/") {
			if i := strings.Index(l, "("); i > 0 {
				// method names contain "(": keep up to the argument list
				if j := strings.LastIndex(l, "("); j > 0 {
					return l[:j]
				}
			}
			return l
		}
		return ""
	}
	return ""
}

func trimStack(st string) string {
	var keep []string
	for _, l := range strings.Split(st, "\n") {
		if strings.Contains(l, libPrefix) || strings.Contains(l, "/repo/") || strings.Contains(l, "verif/") {
			keep = append(keep, strings.TrimSpace(l))
		}
		if len(keep) >= 10 {
			break
		}
	}
	return strings.Join(keep, "\n")
}

// Assign distributes jobs with the given estimated costs over n shards (longest-processing-time-first, deterministic);
// it returns the shard of each job. Every shard computes the same assignment.
func Assign(costs []float64, n int) []int {
	idx := make([]int, len(costs))
	for i := range idx {
		idx[i] = i
	}
	sort.SliceStable(idx, func(a, b int) bool { return costs[idx[a]] > costs[idx[b]] })
	load := make([]float64, n)
	out := make([]int, len(costs))
	for _, i := range idx {
		best := 0
		for s := 1; s < n; s++ {
			if load[s] < load[best] {
				best = s
			}
		}
		out[i] = best
		load[best] += costs[i] + 1
	}
	return out
}
