// Package vsched is the cooperative scheduler of Engine C. It is injected (go build -overlay) next to the
// repository's sources; the transformed sources and the shim packages vsync / vatomic / vtime call into it at every
// scheduling point. Exactly one goroutine of an execution runs at a time ("baton passing"); at every scheduling
// point the running thread asks the chooser which enabled thread continues. With no execution installed every entry
// point passes straight through, so transformed code also runs free (transformer self-test, race pass).
package vsched

import (
	"context"
	"fmt"
	"runtime"
	"runtime/debug"
	"sort"
	"strings"
	"sync"
	"sync/atomic"
	"time"

	"github.com/aldas/go-modbus-client/verifshim/vtime"
)

// Chooser picks among n alternatives at a choice point; 0 is the default.
type Chooser func(n int, label string) int

// Mode selects what a deviation is.
const (
	ModeDelay      = 0 // every non-default choice costs one deviation (delay bounding)
	ModePreemption = 1 // switching away from a thread that could continue costs one; choices at blocking points are free
)

// Config of one execution.
type Config struct {
	Choose    Chooser
	Budget    int  // deviations allowed
	Mode      int  // ModeDelay / ModePreemption
	TimeFirst bool // offer "let virtual time advance to the next timer/deadline first" as a (costed) alternative
	// SleepSets turns on sleep-set partial-order reduction (only sound for UNBOUNDED exploration: give a budget that is
	// never exhausted). A thread whose pending transition was already explored from this state as an earlier sibling
	// stays asleep until a transition on the same object (or on an unlabelled one) is executed; an execution in which every
	// enabled thread is asleep is redundant and is cut (Outcome.Pruned).
	SleepSets bool
	// HB turns on happens-before race detection (hb.go): Outcome.Races lists the unordered conflicting field accesses.
	HB       bool
	MaxSteps int  // step cap per execution (0 = 100000); exceeding it ends the execution with Outcome.StepLimit
	Trace    bool // record the step log
	Watchdog time.Duration
}

// Step is one entry of the trace.
type Step struct {
	Thread int    `json:"t"`
	Label  string `json:"l"`
}

// Outcome of one execution.
type Outcome struct {
	Crash     string   // first unrecovered panic in any thread ("" = none)
	CrashIn   string   // name of the thread that crashed
	Deadlock  bool     // no enabled thread, no pending timer, threads unfinished
	Blocked   []string // names (with wait labels) of the threads blocked at deadlock
	StepLimit bool
	// Pruned: sleep-set reduction cut this execution (everything it could still do is covered by another execution);
	// it must not be judged.
	Pruned bool
	// Unsupported: the code under test used a construct the scheduler does not model (e.g. a rendezvous on an unbuffered
	// channel). The execution is abandoned; the check must end INCONCLUSIVE, never with a verdict.
	Unsupported string
	Hung        bool // real-time watchdog: a goroutine is stuck outside the scheduler (harness defect, never an oracle)
	Steps       int
	Switches    int
	Threads     int
	Trace       []Step
	Spent       int
	VirtualNs   int64
	// ChoiceSteps[i] is the number of steps taken when the i-th choice was made (lets the explorer tell the steps an
	// execution shares with the prefix it replays from the steps that are new).
	ChoiceSteps []int
	// Races: data races found by the happens-before detector in this execution (Config.HB); HBAccesses / HBEdges count the
	// field accesses checked and the acquire edges applied.
	Races      []Race
	HBAccesses int
	HBEdges    int
}

type thread struct {
	id      int
	name    string
	resume  chan struct{}
	exited  chan struct{}
	state   int // 0 runnable, 1 blocked, 2 done
	cond    func() bool
	wakeAt  int64 // virtual ns at which the thread becomes enabled regardless of cond (0 = never)
	waitLbl string
	pend    any  // object of the transition the thread performs when it is resumed (nil = unknown: conflicts with everything)
	harness bool // a wait of the test harness (client-side read deadline, handler sleep): never the target of "time first"
	quiesce bool // waiting for quiescence: enabled only when nothing else can run without time advancing
	system  bool // executes repository code (Serve, connection goroutines, Shutdown caller) — informational
	daemon  bool // a watcher the standard library would run in the background (context.AfterFunc): the execution does not wait for it
}

const (
	stRunnable = 0
	stBlocked  = 1
	stDone     = 2
)

type sched struct {
	cfg                 Config
	threads             []*thread
	cur                 *thread
	budget              int
	aborted             bool
	finished            bool
	done                chan struct{}
	out                 Outcome
	gen                 int64 // bumped by every external event (context cancelled, timer fired, channel operation by the harness)
	sleep               map[*thread]bool
	eagerFor, eagerBack *thread // a freshly spawned thread running its thread-local prologue, and who to return to
	noteSeq             int64
	notes               map[any]int64
	live                int
	hb                  *hbState
}

var (
	s  *sched
	mu sync.Mutex // guards installation only
)

// Active reports whether an execution is installed and not being torn down.
func Active() bool { return s != nil && !s.aborted }

// Aborted reports whether the current execution is being torn down (harness callbacks must ignore what they see then).
func Aborted() bool { return s != nil && s.aborted }

type abortSignal struct{}

// Run executes body as thread 0 ("main") under the scheduler and returns when every thread has finished or the
// execution was ended (crash, deadlock, step limit).
func Run(cfg Config, body func()) Outcome {
	if cfg.MaxSteps == 0 {
		cfg.MaxSteps = 100000
	}
	if cfg.Watchdog == 0 {
		cfg.Watchdog = 30 * time.Second
	}
	mu.Lock()
	defer mu.Unlock()
	sc := &sched{cfg: cfg, budget: cfg.Budget, done: make(chan struct{}), notes: map[any]int64{}}
	if cfg.HB {
		sc.hb = newHB()
	}
	s = sc
	vtime.ResetClock()
	vtime.SleepHook = sleep
	vtime.OnTimer = func() { Point("timer") }
	vtime.OnFire = func() { sc.gen++ }
	vtime.GoHook = func(f func()) {
		sc.gen++
		sc.newThread(fmt.Sprintf("timerfunc%d", len(sc.threads)), f, true, nil) // becomes runnable; started when first picked
	}
	t := sc.newThread("main", body, false, nil)
	sc.cur = t
	t.resume <- struct{}{}
	wd := time.NewTimer(cfg.Watchdog)
	select {
	case <-sc.done:
		wd.Stop()
	case <-wd.C:
		sc.out.Hung = true
		sc.out.Steps = -1
		// cannot clean up: goroutines are stuck somewhere real. The caller must treat this as INCONCLUSIVE and exit.
		s = nil
		return sc.out
	}
	// reap: every thread that has not exited is parked; resume them one at a time, each unwinds with Goexit (after a
	// normal end only daemon watchers can be left)
	sc.aborted = true
	{
		for _, th := range sc.threads {
			select {
			case <-th.exited:
				continue
			default:
			}
			th.resume <- struct{}{}
			select {
			case <-th.exited:
			case <-time.After(cfg.Watchdog):
				sc.out.Hung = true
				s = nil
				return sc.out
			}
		}
	}
	sc.out.Threads = len(sc.threads)
	sc.out.Spent = cfg.Budget - sc.budget
	sc.out.VirtualNs = int64(vtime.Elapsed())
	if sc.hb != nil {
		sc.out.Races, sc.out.HBAccesses, sc.out.HBEdges = sc.hb.result(), sc.hb.accesses, sc.hb.edges
	}
	s = nil
	vtime.SleepHook = nil
	vtime.OnTimer = nil
	vtime.OnFire = nil
	vtime.GoHook = nil
	return sc.out
}

// newThread: parent is the thread whose go statement (or Spawn) creates the new one; nil for the main thread and for
// threads created by a timer (they start with the join of all clocks).
func (sc *sched) newThread(name string, f func(), system bool, parent *thread) *thread {
	t := &thread{id: len(sc.threads), name: name, resume: make(chan struct{}, 1), exited: make(chan struct{}), system: system}
	sc.threads = append(sc.threads, t)
	if sc.hb != nil {
		sc.hb.fork(parent, t)
	}
	sc.live++
	go func() {
		defer close(t.exited)
		<-t.resume
		if sc.aborted {
			return
		}
		defer func() {
			// runs on normal return, on panic and on Goexit
			if rec := recover(); rec != nil {
				if _, ok := rec.(abortSignal); !ok && !sc.aborted {
					sc.out.Crash = fmt.Sprintf("%v", rec)
					sc.out.CrashIn = t.name
					if sc.cfg.Trace {
						sc.out.Crash += "\n" + trimStack(string(debug.Stack()))
					}
					t.state = stDone
					sc.abort()
					return
				}
			}
			if sc.aborted {
				return
			}
			// normal end of thread: hand over
			if sc.hb != nil {
				sc.hb.flush(t, sc)
			}
			t.state = stDone
			if !t.daemon {
				sc.live--
			}
			sc.gen++ // a thread's deferred calls often cancel contexts / close channels others are waiting on
			sc.step(t, "exit")
			if sc.eagerFor == t { // ended before its first scheduling operation
				sp := sc.eagerBack
				sc.eagerFor, sc.eagerBack = nil, nil
				sc.cur = sp
				sp.resume <- struct{}{}
				return
			}
			if sc.live == 0 {
				sc.finish()
				return
			}
			next := sc.pick("exit")
			if next == nil {
				return // aborted (deadlock)
			}
			sc.switchTo(next)
		}()
		f()
	}()
	return t
}

func trimStack(st string) string {
	lines := strings.Split(st, "\n")
	var keep []string
	for _, l := range lines {
		if strings.Contains(l, "/repo/") || strings.Contains(l, "/gen-") || strings.Contains(l, "go-modbus-client") {
			keep = append(keep, strings.TrimSpace(l))
		}
		if len(keep) >= 8 {
			break
		}
	}
	return strings.Join(keep, "\n")
}

func (sc *sched) finish() {
	if !sc.finished {
		sc.finished = true
		close(sc.done)
	}
}

// abort ends the execution: the caller must afterwards either return from its goroutine or park.
func (sc *sched) abort() {
	sc.aborted = true
	sc.finish()
}

func (sc *sched) step(t *thread, label string) {
	sc.out.Steps++
	if sc.cfg.Trace {
		sc.out.Trace = append(sc.out.Trace, Step{t.id, label})
	}
}

func (sc *sched) switchTo(next *thread) {
	sc.out.Switches++
	sc.cur = next
	next.resume <- struct{}{}
}

// park blocks the calling thread's goroutine until it is resumed; if the execution is being torn down it unwinds.
func (sc *sched) park(t *thread) {
	<-t.resume
	if sc.aborted {
		runtime.Goexit()
	}
}

func (sc *sched) enabledOf(t *thread) bool {
	switch t.state {
	case stRunnable:
		return true
	case stBlocked:
		if t.wakeAt > 0 && int64(vtime.Elapsed()) >= t.wakeAt {
			return true
		}
		return t.cond != nil && t.cond()
	}
	return false
}

// nextWake returns the earliest virtual instant at which something time-driven happens.
func (sc *sched) nextWake() (int64, bool) {
	w, _, ok := sc.nextWake2()
	return w, ok
}

// nextWake2 also reports whether the earliest event is (or coincides with) a wait of the harness.
func (sc *sched) nextWake2() (when int64, harness bool, ok bool) {
	for _, t := range sc.threads {
		if t.state == stBlocked && t.wakeAt > 0 {
			if !ok || t.wakeAt < when {
				when, harness, ok = t.wakeAt, t.harness, true
			} else if t.wakeAt == when && t.harness {
				harness = true
			}
		}
	}
	if w, has := vtime.NextTimerNs(); has {
		if !ok || w < when {
			when, harness, ok = w, false, true
		}
	}
	return
}

// pick decides which thread runs next (nil: the execution was aborted because nothing can run).
func (sc *sched) pick(label string) *thread {
	cur := sc.cur
	for {
		var en []*thread
		curEnabled := cur != nil && sc.enabledOf(cur)
		if curEnabled {
			en = append(en, cur)
		}
		for _, t := range sc.threads {
			if t != cur && sc.enabledOf(t) {
				en = append(en, t)
			}
		}
		if len(en) == 0 {
			var q *thread
			for _, t := range sc.threads {
				if t.state == stBlocked && t.quiesce {
					q = t
					break
				}
			}
			if q != nil {
				q.quiesce = false
				q.cond = func() bool { return true }
				sc.sleep = nil
				return q
			}
			w, ok := sc.nextWake()
			if !ok {
				sc.out.Deadlock = true
				for _, t := range sc.threads {
					if t.state == stBlocked {
						sc.out.Blocked = append(sc.out.Blocked, t.name+"@"+t.waitLbl)
					}
				}
				sort.Strings(sc.out.Blocked)
				sc.abort()
				return nil
			}
			sc.sleep = nil // time passing may change what any pending transition does
			vtime.AdvanceToNs(w)
			continue
		}
		if sc.cfg.SleepSets && len(sc.sleep) > 0 {
			awake := en[:0:0]
			for _, t := range en {
				if !sc.sleep[t] {
					awake = append(awake, t)
				}
			}
			if len(awake) == 0 {
				sc.out.Pruned = true
				sc.abort()
				return nil
			}
			en = awake
			curEnabled = len(en) > 0 && en[0] == cur
		}
		n := len(en)
		timeAlt := false
		if sc.cfg.TimeFirst && sc.budget > 0 {
			// only events of the code under test that are near: the far ones are the harness's stand-ins for "never"
			if w, h, ok := sc.nextWake2(); ok && !h && w > int64(vtime.Elapsed()) && w-int64(vtime.Elapsed()) <= int64(time.Second) {
				timeAlt = true
			}
		}
		free := sc.cfg.Mode == ModePreemption && !curEnabled
		if !free && sc.budget <= 0 {
			return sc.chosen(en, 0)
		}
		if n == 1 && !timeAlt {
			return sc.chosen(en, 0)
		}
		alts := n
		if timeAlt {
			alts++
		}
		sc.out.ChoiceSteps = append(sc.out.ChoiceSteps, sc.out.Steps)
		ch := sc.cfg.Choose(alts, label)
		if ch == 0 {
			return sc.chosen(en, 0)
		}
		if timeAlt && ch == n {
			sc.budget--
			w, _ := sc.nextWake()
			sc.sleep = nil // time passing may change what any pending transition does
			vtime.AdvanceToNs(w)
			if sc.cfg.Trace {
				sc.out.Trace = append(sc.out.Trace, Step{-1, "time-first"})
			}
			continue
		}
		if !free {
			sc.budget--
		}
		return sc.chosen(en, ch)
	}
}

// chosen returns en[k] and maintains the sleep set: the siblings en[0..k-1] were (or are being) explored from this very
// state, so they go to sleep in this branch; whoever's pending transition may conflict with the one now taken wakes up.
func (sc *sched) chosen(en []*thread, k int) *thread {
	t := en[k]
	if !sc.cfg.SleepSets {
		return t
	}
	ns := map[*thread]bool{}
	add := func(u *thread) {
		if u != t && u.pend != nil && t.pend != nil && u.pend != t.pend {
			ns[u] = true
		}
	}
	for u := range sc.sleep {
		add(u)
	}
	for _, u := range en[:k] {
		add(u)
	}
	sc.sleep = ns
	return t
}

func (sc *sched) me() *thread { return sc.cur }

// yield is the common tail of every scheduling operation: the calling thread t has recorded its state (runnable, or
// blocked on a condition); someone is picked and t parks unless it is picked itself. A thread that was started eagerly
// by Spawn/Go hands control straight back to its spawner at its first scheduling operation instead.
func (sc *sched) yield(t *thread, label string) {
	if sc.eagerFor == t {
		sp := sc.eagerBack
		sc.eagerFor, sc.eagerBack = nil, nil
		sc.cur = sp
		sp.resume <- struct{}{}
		sc.park(t)
		return
	}
	if sc.out.Steps > sc.cfg.MaxSteps {
		sc.out.StepLimit = true
		sc.abort()
		sc.park(t)
	}
	next := sc.pick(label)
	if next == nil {
		sc.park(t)
	}
	if next != t {
		sc.switchTo(next)
		sc.park(t)
	}
}

// Point is a scheduling point: the running thread may be descheduled here. What the thread does next is not described
// (for the sleep-set reduction it conflicts with everything).
func Point(label string) { PointObj(label, nil) }

// PointObj is Point for a thread whose next transition (everything up to its next scheduling operation) touches only
// the shared object obj - a mutex, an atomic variable, a connection, a field name. obj must be comparable.
func PointObj(label string, obj any) {
	sc := s
	if sc == nil {
		return
	}
	if sc.aborted {
		runtime.Goexit()
	}
	t := sc.me()
	t.pend = obj
	sc.step(t, label)
	sc.yield(t, label)
}

// PointWhen is a scheduling point that is enabled only while cond() holds (or once virtual time has reached wakeAtNs,
// 0 = no deadline): acquiring a lock, accepting a connection, reading from a connection. Other threads may run first
// even if cond() holds now; when the call returns, cond() held (or the deadline had passed) at the moment the thread
// was scheduled and no other thread has run since.
func PointWhen(label string, cond func() bool, wakeAtNs int64) {
	pointWhen(label, cond, wakeAtNs, false, nil)
}

// PointWhenObj is PointWhen whose transition touches only obj (see PointObj).
func PointWhenObj(label string, cond func() bool, wakeAtNs int64, obj any) {
	pointWhen(label, cond, wakeAtNs, false, obj)
}

// PointWhenH is PointWhen for waits of the test harness itself ("time first" never jumps to their deadline).
func PointWhenH(label string, cond func() bool, wakeAtNs int64) {
	pointWhen(label, cond, wakeAtNs, true, nil)
}

// PointWhenHObj is PointWhenH with an object.
func PointWhenHObj(label string, cond func() bool, wakeAtNs int64, obj any) {
	pointWhen(label, cond, wakeAtNs, true, obj)
}

func pointWhen(label string, cond func() bool, wakeAtNs int64, harness bool, obj any) {
	sc := s
	if sc == nil {
		panic("vsched.PointWhen without an execution: " + label)
	}
	if sc.aborted {
		runtime.Goexit()
	}
	t := sc.me()
	t.state, t.cond, t.wakeAt, t.waitLbl, t.harness = stBlocked, cond, wakeAtNs, label, harness
	t.pend = obj
	sc.step(t, label)
	sc.yield(t, label)
	t.state, t.cond, t.wakeAt = stRunnable, nil, 0
	if harness {
		HBAcquireAll() // what the harness waited for has happened: its cause is ordered before what the harness does next
	}
}

// Block suspends the running thread until cond() holds or virtual time reaches wakeAtNs (0 = no deadline); if cond()
// holds already it returns at once without a scheduling point (harness waits).
// cond is evaluated by the scheduler while other threads are stopped, so it may read shared harness state freely.
func Block(label string, cond func() bool, wakeAtNs int64) {
	block(label, cond, wakeAtNs, false)
	HBAcquireAll() // Block / BlockH are the harness's waits: the cause of what it waited for is ordered before what it does next
}

// BlockLib is Block for waits of the code under test itself (the shims): no happens-before edge is implied.
func BlockLib(label string, cond func() bool, wakeAtNs int64) { block(label, cond, wakeAtNs, false) }

// BlockH is Block for waits of the test harness itself (client-side deadlines, handler sleeps): "time first" never
// jumps to them.
func BlockH(label string, cond func() bool, wakeAtNs int64) {
	block(label, cond, wakeAtNs, true)
	HBAcquireAll()
}

func block(label string, cond func() bool, wakeAtNs int64, harness bool) {
	sc := s
	if sc == nil {
		panic("vsched.Block without an execution: " + label)
	}
	if sc.aborted {
		runtime.Goexit()
	}
	if cond() || (wakeAtNs > 0 && int64(vtime.Elapsed()) >= wakeAtNs) {
		return
	}
	pointWhen("block:"+label, cond, wakeAtNs, harness, nil)
}

// Quiesce suspends the running thread until no other thread can run without virtual time advancing.
func Quiesce() {
	sc := s
	if sc == nil {
		return
	}
	if sc.aborted {
		runtime.Goexit()
	}
	t := sc.me()
	t.state, t.cond, t.wakeAt, t.waitLbl, t.quiesce = stBlocked, nil, 0, "quiesce", true
	t.pend = nil
	sc.step(t, "block:quiesce")
	sc.yield(t, "quiesce")
	t.state, t.cond, t.wakeAt, t.quiesce = stRunnable, nil, 0, false
	HBAcquireAll()
}

// FreeGo counts the goroutines transformed code has started while no execution was installed (they run free: a harness
// that calls code under test without the scheduler reads it to learn that the code started goroutines of its own).
var FreeGo int64

// Go starts f as a new thread of the execution (the transformer routes every go statement here). The new thread is
// run at once up to its first scheduling operation (that segment is thread-local by construction), then the spawner
// continues with a scheduling point.
func Go(f func()) { GoNamed("", f, true) }

// GoNamed is Go with a name; system marks threads that execute repository code.
func GoNamed(name string, f func(), system bool) {
	if s == nil {
		atomic.AddInt64(&FreeGo, 1)
		go f()
		return
	}
	// the scheduling point comes first: what follows it (creating the thread, its thread-local prologue, and the
	// spawner's code up to its next scheduling operation) touches no shared object
	PointObj("go", new(int))
	Spawn(name, f, system)
}

// Spawn starts f as a new thread without a scheduling point of the spawner (harness set-up: all threads of a scenario
// are created "at once"). The new thread runs up to its first scheduling operation and waits there.
func Spawn(name string, f func(), system bool) {
	sc := s
	if sc == nil {
		go f()
		return
	}
	if sc.aborted {
		runtime.Goexit()
	}
	if name == "" {
		name = fmt.Sprintf("go%d", len(sc.threads))
	}
	t := sc.newThread(name, f, system, sc.me())
	if sc.eagerFor != nil {
		return // nested spawn inside an eager segment: the grandchild starts when it is first scheduled
	}
	me := sc.me()
	sc.eagerFor, sc.eagerBack = t, me
	sc.cur = t
	t.resume <- struct{}{}
	sc.park(me)
}

// Unsupported abandons the execution because the code under test did something the scheduler does not model.
func Unsupported(what string) {
	sc := s
	if sc == nil {
		panic("vsched: unsupported without an execution: " + what)
	}
	if sc.aborted {
		runtime.Goexit()
	}
	if sc.out.Unsupported == "" {
		sc.out.Unsupported = what
	}
	t := sc.me()
	sc.abort()
	sc.park(t)
}

// Recv is a channel receive as a scheduling operation (the transformer rewrites `<-ch`, `v := <-ch` to it): the thread
// is disabled until a value (or close) is available. Only buffered channels are modelled.
func Recv[T any](ch <-chan T) T {
	v, _ := Recv2(ch)
	return v
}

// Recv2 is `v, ok := <-ch`.
func Recv2[T any](ch <-chan T) (T, bool) {
	if s == nil {
		v, ok := <-ch
		return v, ok
	}
	Point("chan.recv")
	for {
		select {
		case v, ok := <-ch:
			Signal()
			HBChanRecv(ch)
			return v, ok
		default:
		}
		// (an unbuffered channel that only ever gets closed - a context's Done channel - is handled by this loop as well;
		// a rendezvous with a sending thread is refused on the sender's side)
		WaitExternal()
	}
}

// Send is `ch <- v`.
func Send[T any](ch chan<- T, v T) {
	if s == nil {
		ch <- v
		return
	}
	Point("chan.send")
	HBChanSend(ch)
	for {
		select {
		case ch <- v:
			Signal()
			HBChanSent(ch)
			return
		default:
		}
		if cap(ch) == 0 {
			Unsupported("send on an unbuffered channel (rendezvous between goroutines is not modelled)")
		}
		WaitExternal()
	}
}

// Close is close(ch) plus the wake-up of threads waiting on it.
func Close[T any](ch chan<- T) {
	if s != nil {
		Point("chan.close")
		HBChanClose(ch)
	}
	close(ch)
	Signal()
}

// Signal tells the scheduler that something a WaitExternal caller may be waiting for has happened (a context was
// cancelled, a channel was closed or written by harness code).
func Signal() {
	if sc := s; sc != nil {
		sc.gen++
	}
}

// WaitExternal is what the transformer puts in the added default branch of a blocking select / channel receive: the
// thread is disabled until the next external event (Signal, timer fired), then re-evaluates its select.
func WaitExternal() {
	sc := s
	if sc == nil {
		runtime.Gosched()
		time.Sleep(50 * time.Microsecond)
		return
	}
	g := sc.gen
	block("select", func() bool { return sc.gen != g }, 0, false)
}

func sleep(d time.Duration) {
	sc := s
	if sc == nil {
		vtime.Advance(d)
		return
	}
	Point("sleep")
	if d <= 0 {
		return
	}
	block("sleep", func() bool { return false }, int64(vtime.Elapsed())+int64(d), HarnessSleep)
}

// HarnessSleep tells whether vtime.Sleep calls come from the harness (server scenarios: only the handler sleeps) or
// from repository code (serial client: the 30 ms pause after a write).
var HarnessSleep = true

// Access marks a statement that reads or writes a mutable shared field: a preemption window around plain memory.
func Access(label string) {
	// the label ends with the names of the fields the statement mentions: "file:line f1 f2"; one field = one object
	// (all instances of the struct conflated), several fields = unknown
	obj := any(nil)
	if i := strings.IndexByte(label, ' '); i >= 0 && strings.IndexByte(label[i+1:], ' ') < 0 {
		obj = "field:" + label[i+1:]
	}
	PointObj(label, obj)
}

// NowNs is the virtual clock in ns.
func NowNs() int64 { return int64(vtime.Elapsed()) }

// ThreadID returns the id of the running thread (-1 without an execution).
func ThreadID() int {
	if sc := s; sc != nil && sc.cur != nil {
		return sc.cur.id
	}
	return -1
}

// ThreadName returns the name of the running thread.
func ThreadName() string {
	if sc := s; sc != nil && sc.cur != nil {
		return sc.cur.name
	}
	return ""
}

// Note records the insertion order of a map key (see Keys).
func Note(k any) {
	sc := s
	if sc == nil {
		return
	}
	if _, ok := sc.notes[k]; !ok {
		sc.noteSeq++
		sc.notes[k] = sc.noteSeq
	}
}

// Keys returns the keys of m in insertion order (as recorded by Note); with 2 or 3 keys the other permutations are
// offered to the chooser as deviations. Without an execution the order is Go's.
func Keys[K comparable, V any](m map[K]V) []K {
	keys := make([]K, 0, len(m))
	for k := range m {
		keys = append(keys, k)
	}
	sc := s
	if sc == nil || sc.aborted {
		return keys
	}
	sort.SliceStable(keys, func(i, j int) bool { return sc.notes[any(keys[i])] < sc.notes[any(keys[j])] })
	if len(keys) >= 2 && len(keys) <= 3 && sc.budget > 0 {
		perms := 2
		if len(keys) == 3 {
			perms = 6
		}
		sc.out.ChoiceSteps = append(sc.out.ChoiceSteps, sc.out.Steps)
		ch := sc.cfg.Choose(perms, "map-order")
		if ch != 0 {
			sc.budget--
			keys = permute(keys, ch)
		}
	}
	return keys
}

func permute[K any](k []K, idx int) []K {
	if len(k) == 2 {
		return []K{k[1], k[0]}
	}
	p := [][3]int{{0, 1, 2}, {0, 2, 1}, {1, 0, 2}, {1, 2, 0}, {2, 0, 1}, {2, 1, 0}}[idx]
	return []K{k[p[0]], k[p[1]], k[p[2]]}
}

// ContextAfterFunc is context.AfterFunc under the scheduler (the transformer routes the call here): the standard library
// would run f on a goroutine of its own once ctx is done - a goroutine the scheduler does not know, which must never call
// into an installed execution. Here a watcher thread waits for ctx to be done (or for stop) and then runs f as a thread
// like any other. While it only waits, the watcher is a daemon: the execution does not wait for it and it is not part of
// a deadlock; from the moment ctx is done until f has returned it counts like every other thread.
func ContextAfterFunc(ctx context.Context, f func()) (stop func() bool) {
	sc := s
	if sc == nil || sc.aborted {
		return context.AfterFunc(ctx, f)
	}
	var stopped, started bool
	PointObj("go", new(int))
	t := sc.newThread(fmt.Sprintf("ctx-afterfunc%d", len(sc.threads)), func() {
		block("ctx.afterfunc", func() bool { return stopped || ctx.Err() != nil }, 0, false)
		if stopped {
			return
		}
		started = true
		me := sc.me()
		me.daemon = false
		sc.live++
		HBAcquireAll() // whoever cancelled the context did so before f runs
		f()
	}, true, sc.me())
	t.daemon = true
	sc.live-- // (newThread counted it)
	return func() bool {
		if started || stopped {
			return false
		}
		PointObj("ctx.afterfunc.stop", t)
		if started || stopped {
			return false
		}
		stopped = true
		Signal()
		return true
	}
}
