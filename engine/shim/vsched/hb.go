package vsched

import (
	"fmt"
	"reflect"
	"sort"
)

// Happens-before race detection over the executions the scheduler explores (vector clocks, one per thread and one per
// synchronisation object). The scheduler serialises the threads, so the Go race detector cannot see anything under it
// (every hand-over is a happens-before edge); this detector sees exactly the edges the program's own synchronisation
// creates - the shims report them - and the plain reads and writes of mutable struct fields that the transformer
// reports (R / W). Two accesses to the same field of the same object, at least one a write, not ordered by those edges,
// are a data race in the sense of the Go memory model, whether or not this particular schedule shows a symptom.
//
// Soundness rule: the edges recorded here are a SUPERSET of the real ones (an edge too many can only hide a race, an
// edge too few would invent one):
//   - every atomic store is a release-merge, every atomic read-modify-write acquires and releases;
//   - memnet operations acquire and release on the connection / listener they touch;
//   - a receive from a channel nobody was seen sending on or closing (a context's Done channel closed inside the
//     standard library, a timer channel) acquires from EVERY thread ("whoever closed it did so just now");
//   - a wait of the harness that returns acquires from every thread; a thread created by a timer starts with the join
//     of all clocks.
// Accesses are recorded only where the transformer can tell when they execute relative to the calls of the same
// statement (see xform): what it cannot place it does not report.

type vclock []int32

func (v vclock) get(i int) int32 {
	if i < len(v) {
		return v[i]
	}
	return 0
}

func join(a, b vclock) vclock {
	if len(b) > len(a) {
		n := make(vclock, len(b))
		copy(n, a)
		a = n
	}
	for i, x := range b {
		if x > a[i] {
			a[i] = x
		}
	}
	return a
}

type epoch struct {
	tid   int
	clk   int32
	label string
}

type accKey struct {
	base  any // a pointer: keeps the object alive, so that its address is not reused within the execution
	field string
}

type accState struct {
	w     epoch
	hasW  bool
	reads []epoch
}

// Race is one unordered pair of conflicting accesses.
type Race struct {
	Field  string `json:"field"`
	First  string `json:"first"`  // "write client.go:168 (thread go3)"
	Second string `json:"second"` // the access that found the first one unordered
}

func (r Race) String() string { return fmt.Sprintf("%s: %s / %s", r.Field, r.First, r.Second) }

// Key is the schedule-independent identity of a race (field and the two source positions, sorted).
func (r Race) Key() string {
	a, b := r.First, r.Second
	cut := func(s string) string {
		for i := 0; i < len(s); i++ {
			if s[i] == '(' {
				return s[:i-1]
			}
		}
		return s
	}
	a, b = cut(a), cut(b)
	if b < a {
		a, b = b, a
	}
	return r.Field + " " + a + " / " + b
}

type tentRead struct {
	base         any
	field, where string
}

type hbState struct {
	tent     map[*thread][]tentRead
	tvc      map[*thread]vclock
	svc      map[any]vclock
	acc      map[accKey]*accState
	keep     []any
	races    []Race
	seen     map[string]bool
	accesses int
	edges    int
}

func newHB() *hbState {
	return &hbState{tent: map[*thread][]tentRead{}, tvc: map[*thread]vclock{}, svc: map[any]vclock{}, acc: map[accKey]*accState{}, seen: map[string]bool{}}
}

func (h *hbState) clock(t *thread) vclock {
	v := h.tvc[t]
	if v == nil {
		v = make(vclock, t.id+1)
		v[t.id] = 1
		h.tvc[t] = v
	} else if len(v) <= t.id {
		n := make(vclock, t.id+1)
		copy(n, v)
		v = n
		h.tvc[t] = v
	}
	if v[t.id] == 0 {
		v[t.id] = 1
	}
	return v
}

func (h *hbState) tick(t *thread) {
	v := h.clock(t)
	v[t.id]++
}

// fork gives child the clock of parent (nil parent: the join of every thread's clock).
func (h *hbState) fork(parent, child *thread) {
	var v vclock
	if parent != nil {
		v = join(nil, h.clock(parent))
		h.tick(parent)
	} else {
		v = h.all()
	}
	if len(v) <= child.id {
		n := make(vclock, child.id+1)
		copy(n, v)
		v = n
	}
	v[child.id] = 1
	h.tvc[child] = v
}

func (h *hbState) all() vclock {
	var v vclock
	for _, c := range h.tvc {
		v = join(v, c)
	}
	return v
}

// syncKey normalises a synchronisation object: channels of different directions but the same underlying channel must
// be the same key.
func (h *hbState) syncKey(obj any) any {
	rv := reflect.ValueOf(obj)
	if rv.Kind() == reflect.Chan {
		h.keep = append(h.keep, obj)
		return rv.Pointer()
	}
	return obj
}

// HBAcquire: everything released on obj so far happens before what the running thread does next.
func HBAcquire(obj any) {
	sc := s
	if sc == nil || sc.hb == nil || sc.aborted || obj == nil {
		return
	}
	h := sc.hb
	t := sc.me()
	if v, ok := h.svc[h.syncKey(obj)]; ok {
		h.tvc[t] = join(h.clock(t), v)
		h.edges++
	}
	h.flush(t, sc)
}

// HBAcquireOrAll is HBAcquire for an object that may have been released by code the scheduler does not see (a channel
// closed inside the standard library): if nothing was ever released on it, the thread acquires from every thread.
func HBAcquireOrAll(obj any) {
	sc := s
	if sc == nil || sc.hb == nil || sc.aborted {
		return
	}
	h := sc.hb
	if obj != nil {
		if _, ok := h.svc[h.syncKey(obj)]; ok {
			HBAcquire(obj)
			return
		}
	}
	HBAcquireAll()
}

// HBAcquireAll: everything any thread has done so far happens before what the running thread does next.
func HBAcquireAll() {
	sc := s
	if sc == nil || sc.hb == nil || sc.aborted {
		return
	}
	h := sc.hb
	t := sc.me()
	h.tvc[t] = join(h.clock(t), h.all())
	h.edges++
	h.flush(t, sc)
}

// HBRelease: what the running thread has done so far happens before whoever acquires obj later (merged with earlier
// releases on obj).
func HBRelease(obj any) {
	sc := s
	if sc == nil || sc.hb == nil || sc.aborted || obj == nil {
		return
	}
	h := sc.hb
	t := sc.me()
	h.flush(t, sc)
	k := h.syncKey(obj)
	h.svc[k] = join(h.svc[k], h.clock(t))
	h.tick(t)
}

// HBSync is acquire followed by release on obj (an operation that both observes and publishes: atomic read-modify-write,
// an operation on a connection).
func HBSync(obj any) {
	HBAcquire(obj)
	HBRelease(obj)
}

func (h *hbState) name(t *thread) string { return fmt.Sprintf("thread %d %s", t.id, t.name) }

func (h *hbState) report(field string, first epoch, firstKind string, second string, secondKind string, t *thread, sc *sched) {
	var ft *thread
	if first.tid < len(sc.threads) {
		ft = sc.threads[first.tid]
	}
	fn := fmt.Sprintf("thread %d", first.tid)
	if ft != nil {
		fn = h.name(ft)
	}
	r := Race{Field: field, First: fmt.Sprintf("%s %s (%s)", firstKind, first.label, fn),
		Second: fmt.Sprintf("%s %s (%s)", secondKind, second, h.name(t))}
	if k := r.Key(); !h.seen[k] {
		h.seen[k] = true
		h.races = append(h.races, r)
	}
}

func (h *hbState) state(base any, field string) *accState {
	k := accKey{base, field}
	st := h.acc[k]
	if st == nil {
		st = &accState{}
		h.acc[k] = st
	}
	return st
}

// R records a plain read of base.field by the running thread (base must be a pointer, otherwise the access cannot be
// attributed to an object and is ignored).
func R(base any, field, where string) {
	sc := s
	if sc == nil || sc.hb == nil || sc.aborted || base == nil {
		return
	}
	if reflect.ValueOf(base).Kind() != reflect.Ptr {
		return
	}
	h := sc.hb
	t := sc.me()
	h.flush(t, sc)
	h.read(t, sc, base, field, where)
}

func (h *hbState) read(t *thread, sc *sched, base any, field, where string) {
	v := h.clock(t)
	st := h.state(base, field)
	h.accesses++
	if st.hasW && st.w.tid != t.id && st.w.clk > v.get(st.w.tid) {
		h.report(field, st.w, "write", where, "read", t, sc)
	}
	for i := range st.reads {
		if st.reads[i].tid == t.id {
			st.reads[i] = epoch{t.id, v[t.id], where}
			return
		}
	}
	st.reads = append(st.reads, epoch{t.id, v[t.id], where})
}

// W records a plain write of base.field by the running thread.
func W(base any, field, where string) {
	sc := s
	if sc == nil || sc.hb == nil || sc.aborted || base == nil {
		return
	}
	if reflect.ValueOf(base).Kind() != reflect.Ptr {
		return
	}
	h := sc.hb
	t := sc.me()
	h.flush(t, sc)
	v := h.clock(t)
	st := h.state(base, field)
	h.accesses++
	if st.hasW && st.w.tid != t.id && st.w.clk > v.get(st.w.tid) {
		h.report(field, st.w, "write", where, "write", t, sc)
	}
	for _, r := range st.reads {
		if r.tid != t.id && r.clk > v.get(r.tid) {
			h.report(field, r, "read", where, "write", t, sc)
		}
	}
	st.w, st.hasW = epoch{t.id, v[t.id], where}, true
	st.reads = st.reads[:0]
}

func (h *hbState) result() []Race {
	sort.Slice(h.races, func(i, j int) bool { return h.races[i].Key() < h.races[j].Key() })
	return h.races
}

// AtomicPoint is the scheduling point of an atomic operation plus its happens-before effect: a load acquires, a store
// releases (merged with earlier releases), a read-modify-write does both.
func AtomicPoint(label string, obj any) {
	PointObj(label, obj)
	switch label {
	case "atomic.load":
		HBAcquire(obj)
	case "atomic.store":
		HBRelease(obj)
	default:
		HBSync(obj)
	}
}

var chanGlobal = new(int)

type chanBack struct{ p uintptr }

// HBChanSend / HBChanRecv / HBChanClose are the edges of channel operations: a send (or close) happens before the
// receive that observes it; the k-th receive happens before the (k+cap)-th send completes (over-approximated: every
// earlier receive).
func HBChanSend(ch any) {
	sc := s
	if sc == nil || sc.hb == nil || sc.aborted {
		return
	}
	HBRelease(ch)
}

// HBChanSent is the second half of a send, applied once the send has SUCCEEDED: the receive that made room for it
// happens before it completes (a buffered channel used as a semaphore: the previous holder's release is a receive).
func HBChanSent(ch any) {
	sc := s
	if sc == nil || sc.hb == nil || sc.aborted {
		return
	}
	HBAcquire(chanBack{reflect.ValueOf(ch).Pointer()})
}

func HBChanClose(ch any) { HBRelease(ch) }

func HBChanRecv(ch any) {
	sc := s
	if sc == nil || sc.hb == nil || sc.aborted {
		return
	}
	HBAcquire(chanGlobal)
	HBAcquireOrAll(ch)
	HBRelease(chanBack{reflect.ValueOf(ch).Pointer()})
}

// HBReleaseGlobal: a send whose channel the transformer could not name (send case of a select) - every later receive
// on any channel acquires it.
func HBReleaseGlobal() { HBRelease(chanGlobal) }

// RT records a read whose moment within its statement is not known (the statement contains calls, and the order between
// a call and a plain operand is the compiler's choice): the read is TENTATIVE until the thread's next synchronisation
// operation, the next reported access, or Flush (which the transformer puts at the end of the statement). If nothing
// synchronises in between, when exactly the read happened makes no difference. If the first thing that happens is an
// acquire, the read is judged with the clock AFTER it (as if it came last: may hide a race in this schedule, never invents
// one); if it is a release, with the clock before it (as if it came first: a later writer that acquired the release is
// then ordered after the read - again only hiding is possible).
func RT(base any, field, where string) {
	sc := s
	if sc == nil || sc.hb == nil || sc.aborted || base == nil {
		return
	}
	if reflect.ValueOf(base).Kind() != reflect.Ptr {
		return
	}
	h := sc.hb
	t := sc.me()
	h.flush(t, sc)
	h.tent[t] = append(h.tent[t], tentRead{base, field, where})
}

// Flush commits the running thread's tentative reads.
func Flush() {
	sc := s
	if sc == nil || sc.hb == nil || sc.aborted {
		return
	}
	sc.hb.flush(sc.me(), sc)
}

func (h *hbState) flush(t *thread, sc *sched) {
	p := h.tent[t]
	if len(p) == 0 {
		return
	}
	h.tent[t] = p[:0]
	for _, r := range p {
		h.read(t, sc, r.base, r.field, r.where)
	}
}
