// Package vsync replaces package sync in the transformed sources (Engine C): every operation is a scheduling point and
// blocking is visible to the scheduler. Without an installed execution the real primitives are used.
package vsync

import (
	"sync"

	"github.com/aldas/go-modbus-client/verifshim/vsched"
)

type Locker = sync.Locker

// Mutex mirrors sync.Mutex.
type Mutex struct {
	real   sync.Mutex
	locked bool
	owner  int
}

func (m *Mutex) Lock() {
	if !vsched.Active() {
		if vsched.Aborted() {
			vsched.Point("abort")
		}
		m.real.Lock()
		return
	}
	// acquiring is one transition that is enabled while the lock is free (waiting for a held lock has no effect anyone
	// can observe, so it is not a separate step)
	vsched.PointWhenObj("lock", func() bool { return !m.locked }, 0, m)
	m.locked = true
	m.owner = vsched.ThreadID()
	vsched.HBAcquire(m)
}

func (m *Mutex) TryLock() bool {
	if !vsched.Active() {
		return m.real.TryLock()
	}
	vsched.PointObj("trylock", m)
	if m.locked {
		return false
	}
	m.locked = true
	m.owner = vsched.ThreadID()
	vsched.HBAcquire(m)
	return true
}

func (m *Mutex) Unlock() {
	if !vsched.Active() {
		if vsched.Aborted() {
			return // the execution is being torn down: deferred unlocks of unwinding threads are no-ops
		}
		m.real.Unlock()
		return
	}
	if !m.locked {
		panic("sync: unlock of unlocked mutex")
	}
	// the scheduling point comes before the release: what follows it (the release and the thread's own code up to its
	// next scheduling operation) touches only this mutex; threads waiting for it are disabled until then either way
	vsched.PointObj("unlock", m)
	vsched.HBRelease(m)
	m.locked = false
}

// RWMutex mirrors sync.RWMutex (writer preference is not modelled: a reader may enter whenever no writer holds it).
type RWMutex struct {
	real    sync.RWMutex
	writer  bool
	readers int
}

func (m *RWMutex) Lock() {
	if !vsched.Active() {
		if vsched.Aborted() {
			vsched.Point("abort")
		}
		m.real.Lock()
		return
	}
	vsched.PointWhenObj("lock", func() bool { return !m.writer && m.readers == 0 }, 0, m)
	m.writer = true
	vsched.HBAcquire(m)
	vsched.HBAcquire(rwReaders{m})
}

func (m *RWMutex) Unlock() {
	if !vsched.Active() {
		if vsched.Aborted() {
			return
		}
		m.real.Unlock()
		return
	}
	if !m.writer {
		panic("sync: Unlock of unlocked RWMutex")
	}
	vsched.PointObj("unlock", m)
	vsched.HBRelease(m)
	m.writer = false
}

func (m *RWMutex) RLock() {
	if !vsched.Active() {
		if vsched.Aborted() {
			vsched.Point("abort")
		}
		m.real.RLock()
		return
	}
	vsched.PointWhenObj("rlock", func() bool { return !m.writer }, 0, m)
	m.readers++
	vsched.HBAcquire(m)
}

func (m *RWMutex) RUnlock() {
	if !vsched.Active() {
		if vsched.Aborted() {
			return
		}
		m.real.RUnlock()
		return
	}
	if m.readers <= 0 {
		panic("sync: RUnlock of unlocked RWMutex")
	}
	vsched.PointObj("runlock", m)
	vsched.HBRelease(rwReaders{m})
	m.readers--
}

func (m *RWMutex) TryLock() bool {
	if !vsched.Active() {
		return m.real.TryLock()
	}
	vsched.PointObj("trylock", m)
	if m.writer || m.readers > 0 {
		return false
	}
	m.writer = true
	vsched.HBAcquire(m)
	vsched.HBAcquire(rwReaders{m})
	return true
}

func (m *RWMutex) RLocker() Locker { return (*rlocker)(m) }

// rwReaders is the happens-before object readers release on (a reader's critical section is ordered before the next
// writer's, not before other readers').
type rwReaders struct{ m *RWMutex }

type rlocker RWMutex

func (r *rlocker) Lock()   { (*RWMutex)(r).RLock() }
func (r *rlocker) Unlock() { (*RWMutex)(r).RUnlock() }

// Once mirrors sync.Once: a second caller blocks until the first call of f has returned.
type Once struct {
	real    sync.Once
	done    bool
	running bool
}

func (o *Once) Do(f func()) {
	if !vsched.Active() {
		if vsched.Aborted() {
			vsched.Point("abort")
		}
		o.real.Do(f)
		return
	}
	vsched.PointObj("once", o)
	if o.done {
		vsched.HBAcquire(o)
		return
	}
	if o.running {
		vsched.BlockLib("once", func() bool { return o.done }, 0)
		vsched.HBAcquire(o)
		return
	}
	o.running = true
	defer func() {
		vsched.HBRelease(o)
		o.done = true
		o.running = false
	}()
	f()
}

// WaitGroup mirrors sync.WaitGroup.
type WaitGroup struct {
	real sync.WaitGroup
	n    int
}

func (w *WaitGroup) Add(d int) {
	if !vsched.Active() {
		if vsched.Aborted() {
			return
		}
		w.real.Add(d)
		return
	}
	vsched.PointObj("wg.add", w)
	if d < 0 {
		vsched.HBRelease(w)
	}
	w.n += d
	if w.n < 0 {
		panic("sync: negative WaitGroup counter")
	}
}

func (w *WaitGroup) Done() { w.Add(-1) }

func (w *WaitGroup) Wait() {
	if !vsched.Active() {
		if vsched.Aborted() {
			vsched.Point("abort")
		}
		w.real.Wait()
		return
	}
	vsched.PointWhenObj("wg.wait", func() bool { return w.n == 0 }, 0, w)
	vsched.HBAcquire(w)
}

// Cond mirrors sync.Cond (waiters are woken in FIFO order, as the runtime's notify list does).
type Cond struct {
	L       Locker
	real    *sync.Cond
	waiters []*condTicket
}

type condTicket struct{ woken bool }

func NewCond(l Locker) *Cond { return &Cond{L: l} }

func (c *Cond) realCond() *sync.Cond {
	if c.real == nil {
		c.real = sync.NewCond(c.L)
	}
	return c.real
}

func (c *Cond) Wait() {
	if !vsched.Active() {
		if vsched.Aborted() {
			vsched.Point("abort")
		}
		c.realCond().Wait()
		return
	}
	t := &condTicket{}
	c.waiters = append(c.waiters, t)
	c.L.Unlock()
	vsched.PointWhenObj("cond.wait", func() bool { return t.woken }, 0, c)
	vsched.HBAcquire(c)
	c.L.Lock()
}

func (c *Cond) Signal() {
	if !vsched.Active() {
		if vsched.Aborted() {
			return
		}
		c.realCond().Signal()
		return
	}
	vsched.PointObj("cond.signal", c)
	vsched.HBRelease(c)
	if len(c.waiters) > 0 {
		c.waiters[0].woken = true
		c.waiters = c.waiters[1:]
	}
}

func (c *Cond) Broadcast() {
	if !vsched.Active() {
		if vsched.Aborted() {
			return
		}
		c.realCond().Broadcast()
		return
	}
	vsched.PointObj("cond.broadcast", c)
	vsched.HBRelease(c)
	for _, w := range c.waiters {
		w.woken = true
	}
	c.waiters = nil
}

// Map mirrors sync.Map closely enough for code that only needs a concurrent map (every operation is a scheduling point).
type Map struct{ m sync.Map }

func (m *Map) Load(k any) (any, bool) { vsched.Point("map.load"); vsched.HBSync(m); return m.m.Load(k) }
func (m *Map) Store(k, v any)         { vsched.Point("map.store"); vsched.HBSync(m); m.m.Store(k, v) }
func (m *Map) Delete(k any)           { vsched.Point("map.delete"); vsched.HBSync(m); m.m.Delete(k) }
func (m *Map) LoadOrStore(k, v any) (any, bool) {
	vsched.Point("map.loadorstore")
	vsched.HBSync(m)
	return m.m.LoadOrStore(k, v)
}
func (m *Map) LoadAndDelete(k any) (any, bool) {
	vsched.Point("map.loadanddelete")
	vsched.HBSync(m)
	return m.m.LoadAndDelete(k)
}
func (m *Map) Range(f func(k, v any) bool) { vsched.Point("map.range"); vsched.HBSync(m); m.m.Range(f) }

// Pool mirrors sync.Pool (no per-P caches: a plain LIFO, which is one of the behaviours sync.Pool allows).
type Pool struct {
	New   func() any
	items []any
	real  sync.Mutex
}

func (p *Pool) Get() any {
	vsched.Point("pool.get")
	vsched.HBSync(p)
	p.real.Lock()
	defer p.real.Unlock()
	if n := len(p.items); n > 0 {
		x := p.items[n-1]
		p.items = p.items[:n-1]
		return x
	}
	if p.New != nil {
		return p.New()
	}
	return nil
}

func (p *Pool) Put(x any) {
	vsched.Point("pool.put")
	vsched.HBSync(p)
	p.real.Lock()
	p.items = append(p.items, x)
	p.real.Unlock()
}

// OnceFunc / OnceValue mirror the Go 1.21 helpers on top of Once.
func OnceFunc(f func()) func() {
	var o Once
	return func() { o.Do(f) }
}

func OnceValue[T any](f func() T) func() T {
	var o Once
	var v T
	return func() T {
		o.Do(func() { v = f() })
		return v
	}
}
