// Package vtime is the virtual clock injected (through go build -overlay) in place of package time into the
// repository's client and server sources. Types stay the real ones (aliases), only the sources of time do not:
// Now/After/NewTimer/Sleep read and wait on a clock that only the harness advances.
package vtime

import (
	"sort"
	"sync"
	"time"
)

type (
	Duration = time.Duration
	Time     = time.Time
	Month    = time.Month
	Weekday  = time.Weekday
	Location = time.Location
)

const (
	Nanosecond  = time.Nanosecond
	Microsecond = time.Microsecond
	Millisecond = time.Millisecond
	Second      = time.Second
	Minute      = time.Minute
	Hour        = time.Hour
	RFC3339     = time.RFC3339
	RFC3339Nano = time.RFC3339Nano
)

var UTC = time.UTC

func Unix(sec, nsec int64) Time                { return time.Unix(sec, nsec) }
func ParseDuration(s string) (Duration, error) { return time.ParseDuration(s) }
func Date(y int, m Month, d, h, mi, s, ns int, l *Location) Time {
	return time.Date(y, m, d, h, mi, s, ns, l)
}

var epoch = time.Unix(1_700_000_000, 0)

var (
	mu     sync.Mutex
	now    int64 // ns since epoch
	timers []*Timer
	seq    int64

	// SleepHook, when set (by the cooperative scheduler), implements Sleep; otherwise Sleep advances the clock.
	SleepHook func(d Duration)
	// OnTimer, when set, is told about timer creation/reset (scheduling point for the cooperative scheduler).
	OnTimer func()
	// OnFire, when set, is told whenever a timer fires (an external event for threads waiting in a select).
	OnFire func()
	// GoHook, when set (cooperative scheduler), starts the function of an AfterFunc timer as a thread of the execution
	// (time.AfterFunc runs f in its own goroutine).
	GoHook func(f func())
)

// Timer mirrors time.Timer.
type Timer struct {
	C     <-chan Time
	ch    chan Time
	when  int64
	armed bool
	id    int64
	fn    func()
}

func Now() Time                    { mu.Lock(); defer mu.Unlock(); return epoch.Add(Duration(now)) }
func Since(t Time) Duration        { return Now().Sub(t) }
func Until(t Time) Duration        { return t.Sub(Now()) }
func After(d Duration) <-chan Time { return NewTimer(d).C }
func Tick(d Duration) <-chan Time  { panic("vtime: Tick is not modelled") }

func NewTimer(d Duration) *Timer {
	mu.Lock()
	seq++
	ch := make(chan Time, 1)
	t := &Timer{C: ch, ch: ch, id: seq}
	arm(t, d)
	mu.Unlock()
	if OnTimer != nil {
		OnTimer()
	}
	return t
}

func AfterFunc(d Duration, f func()) *Timer {
	mu.Lock()
	seq++
	t := &Timer{id: seq, fn: f}
	arm(t, d)
	mu.Unlock()
	if OnTimer != nil {
		OnTimer()
	}
	return t
}

func arm(t *Timer, d Duration) {
	t.when = now + int64(d)
	t.armed = true
	timers = append(timers, t)
	if d <= 0 {
		fireDue()
	}
}

func (t *Timer) Stop() bool {
	mu.Lock()
	defer mu.Unlock()
	was := t.armed
	t.armed = false
	remove(t)
	return was
}

func (t *Timer) Reset(d Duration) bool {
	mu.Lock()
	was := t.armed
	remove(t)
	arm(t, d)
	mu.Unlock()
	if OnTimer != nil {
		OnTimer()
	}
	return was
}

func remove(t *Timer) {
	for i, x := range timers {
		if x == t {
			timers = append(timers[:i], timers[i+1:]...)
			return
		}
	}
}

// fireDue fires every armed timer whose time has come, in (when, creation) order. mu held.
func fireDue() {
	sort.SliceStable(timers, func(i, j int) bool {
		if timers[i].when != timers[j].when {
			return timers[i].when < timers[j].when
		}
		return timers[i].id < timers[j].id
	})
	for len(timers) > 0 && timers[0].when <= now {
		t := timers[0]
		timers = timers[1:]
		t.armed = false
		if t.fn != nil {
			f := t.fn
			mu.Unlock()
			if GoHook != nil {
				GoHook(f)
			} else {
				f()
			}
			mu.Lock()
			continue
		}
		select {
		case t.ch <- epoch.Add(Duration(t.when)):
		default:
		}
		if OnFire != nil {
			OnFire()
		}
	}
}

func Sleep(d Duration) {
	if SleepHook != nil {
		SleepHook(d)
		return
	}
	Advance(d)
}

// ---- harness side ----

// Advance moves the clock forward by d and fires due timers.
func Advance(d Duration) {
	if d < 0 {
		d = 0
	}
	mu.Lock()
	now += int64(d)
	fireDue()
	mu.Unlock()
}

// AdvanceTo moves the clock to t if t is later than now.
func AdvanceTo(t Time) {
	mu.Lock()
	if n := int64(t.Sub(epoch)); n > now {
		now = n
	}
	fireDue()
	mu.Unlock()
}

// NextTimer returns the time of the earliest armed timer.
func NextTimer() (Time, bool) {
	mu.Lock()
	defer mu.Unlock()
	var best *Timer
	for _, t := range timers {
		if best == nil || t.when < best.when || (t.when == best.when && t.id < best.id) {
			best = t
		}
	}
	if best == nil {
		return Time{}, false
	}
	return epoch.Add(Duration(best.when)), true
}

// Epoch is the instant the virtual clock starts from.
func Epoch() Time { return epoch }

// NextTimerNs is NextTimer in ns since the start of the execution.
func NextTimerNs() (int64, bool) {
	t, ok := NextTimer()
	if !ok {
		return 0, false
	}
	return int64(t.Sub(epoch)), true
}

// AdvanceToNs moves the clock to ns since the start of the execution (never backwards).
func AdvanceToNs(ns int64) { AdvanceTo(epoch.Add(Duration(ns))) }

// Elapsed returns the virtual time since the last ResetClock.
func Elapsed() Duration { mu.Lock(); defer mu.Unlock(); return Duration(now) }

// ResetClock puts the clock back to the epoch and forgets all timers (between executions).
func ResetClock() {
	mu.Lock()
	now = 0
	timers = nil
	seq = 0
	mu.Unlock()
}

// ---- mode B (single-threaded executions): blocking waits ----
//
// In mode B nothing but the code under test runs, so a blocking receive / select that waits for a timer of the virtual
// clock would wait for ever: nobody else moves the clock. The transformer turns such waits into calls of the functions
// below, which move the clock to the next armed timer while the communication is not ready ("sleep until something
// happens"). With no timer armed the wait is a real one: the harness' hang watchdog decides.

func advanceNext() bool {
	t, ok := NextTimer()
	if !ok {
		return false
	}
	AdvanceTo(t)
	return true
}

// Recv is `<-ch` of mode B.
func Recv[T any](ch <-chan T) T { v, _ := Recv2(ch); return v }

// Recv2 is `v, ok := <-ch` of mode B.
func Recv2[T any](ch <-chan T) (T, bool) {
	for {
		select {
		case v, ok := <-ch:
			return v, ok
		default:
		}
		if !advanceNext() {
			v, ok := <-ch
			return v, ok
		}
	}
}

// WaitExternal is what the retry clause of a blocking select of mode B calls when no communication is ready.
func WaitExternal() {
	if !advanceNext() {
		time.Sleep(200 * time.Microsecond)
	}
}
