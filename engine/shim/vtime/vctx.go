package vtime

import (
	"context"
	"time"
)

// Deadline contexts on the virtual clock. context.WithTimeout / WithDeadline arm a REAL timer inside the standard
// library, which under a virtual clock is a source of nondeterminism nobody owns (a call that takes 2 virtual seconds
// takes microseconds of real time, and vice versa); the transformer routes those four functions here.
//
// The returned context is a cancel context of the standard library (so children register with it directly, without a
// watcher goroutine) wrapped so that Deadline() and Err() behave like a deadline context's: Err() is
// context.DeadlineExceeded once the virtual deadline has passed. (A child derived by the standard library reports
// context.Canceled with Cause() == DeadlineExceeded instead - the one visible difference.)
type deadlineCtx struct {
	context.Context
	deadline time.Time
}

func (c *deadlineCtx) Deadline() (time.Time, bool) {
	if d, ok := c.Context.Deadline(); ok && d.Before(c.deadline) {
		return d, true
	}
	return c.deadline, true
}

func (c *deadlineCtx) Err() error {
	err := c.Context.Err()
	if err != nil && context.Cause(c.Context) == context.DeadlineExceeded {
		return context.DeadlineExceeded
	}
	return err
}

func WithDeadlineCause(parent context.Context, d time.Time, cause error) (context.Context, context.CancelFunc) {
	inner, cancel := context.WithCancelCause(parent)
	c := &deadlineCtx{Context: inner, deadline: d}
	_ = cause // Cause() reports DeadlineExceeded (what Err() is derived from); custom causes are not modelled
	t := AfterFunc(d.Sub(Now()), func() {
		cancel(context.DeadlineExceeded)
		if OnFire != nil {
			OnFire()
		}
	})
	return c, func() {
		t.Stop()
		cancel(context.Canceled)
		if OnFire != nil {
			OnFire()
		}
	}
}

func WithDeadline(parent context.Context, d time.Time) (context.Context, context.CancelFunc) {
	return WithDeadlineCause(parent, d, nil)
}

func WithTimeout(parent context.Context, d time.Duration) (context.Context, context.CancelFunc) {
	return WithDeadlineCause(parent, Now().Add(d), nil)
}

func WithTimeoutCause(parent context.Context, d time.Duration, cause error) (context.Context, context.CancelFunc) {
	return WithDeadlineCause(parent, Now().Add(d), cause)
}
