// Package vatomic replaces sync/atomic in the transformed sources (Engine C): every operation is a scheduling point.
// The cooperative scheduler runs one thread at a time, so plain fields are sequentially consistent; without an
// installed execution the real atomics are used.
package vatomic

import (
	"sync/atomic"

	"github.com/aldas/go-modbus-client/verifshim/vsched"
)

type Bool struct{ v atomic.Bool }

func (b *Bool) Load() bool       { vsched.AtomicPoint("atomic.load", b); return b.v.Load() }
func (b *Bool) Store(x bool)     { vsched.AtomicPoint("atomic.store", b); b.v.Store(x) }
func (b *Bool) Swap(x bool) bool { vsched.AtomicPoint("atomic.swap", b); return b.v.Swap(x) }
func (b *Bool) CompareAndSwap(o, n bool) bool {
	vsched.AtomicPoint("atomic.cas", b)
	return b.v.CompareAndSwap(o, n)
}

type Int32 struct{ v atomic.Int32 }

func (b *Int32) Load() int32        { vsched.AtomicPoint("atomic.load", b); return b.v.Load() }
func (b *Int32) Store(x int32)      { vsched.AtomicPoint("atomic.store", b); b.v.Store(x) }
func (b *Int32) Add(x int32) int32  { vsched.AtomicPoint("atomic.add", b); return b.v.Add(x) }
func (b *Int32) Swap(x int32) int32 { vsched.AtomicPoint("atomic.swap", b); return b.v.Swap(x) }
func (b *Int32) CompareAndSwap(o, n int32) bool {
	vsched.AtomicPoint("atomic.cas", b)
	return b.v.CompareAndSwap(o, n)
}

type Int64 struct{ v atomic.Int64 }

func (b *Int64) Load() int64        { vsched.AtomicPoint("atomic.load", b); return b.v.Load() }
func (b *Int64) Store(x int64)      { vsched.AtomicPoint("atomic.store", b); b.v.Store(x) }
func (b *Int64) Add(x int64) int64  { vsched.AtomicPoint("atomic.add", b); return b.v.Add(x) }
func (b *Int64) Swap(x int64) int64 { vsched.AtomicPoint("atomic.swap", b); return b.v.Swap(x) }
func (b *Int64) CompareAndSwap(o, n int64) bool {
	vsched.AtomicPoint("atomic.cas", b)
	return b.v.CompareAndSwap(o, n)
}

type Uint32 struct{ v atomic.Uint32 }

func (b *Uint32) Load() uint32         { vsched.AtomicPoint("atomic.load", b); return b.v.Load() }
func (b *Uint32) Store(x uint32)       { vsched.AtomicPoint("atomic.store", b); b.v.Store(x) }
func (b *Uint32) Add(x uint32) uint32  { vsched.AtomicPoint("atomic.add", b); return b.v.Add(x) }
func (b *Uint32) Swap(x uint32) uint32 { vsched.AtomicPoint("atomic.swap", b); return b.v.Swap(x) }
func (b *Uint32) CompareAndSwap(o, n uint32) bool {
	vsched.AtomicPoint("atomic.cas", b)
	return b.v.CompareAndSwap(o, n)
}

type Uint64 struct{ v atomic.Uint64 }

func (b *Uint64) Load() uint64         { vsched.AtomicPoint("atomic.load", b); return b.v.Load() }
func (b *Uint64) Store(x uint64)       { vsched.AtomicPoint("atomic.store", b); b.v.Store(x) }
func (b *Uint64) Add(x uint64) uint64  { vsched.AtomicPoint("atomic.add", b); return b.v.Add(x) }
func (b *Uint64) Swap(x uint64) uint64 { vsched.AtomicPoint("atomic.swap", b); return b.v.Swap(x) }
func (b *Uint64) CompareAndSwap(o, n uint64) bool {
	vsched.AtomicPoint("atomic.cas", b)
	return b.v.CompareAndSwap(o, n)
}

type Value struct{ v atomic.Value }

func (b *Value) Load() any      { vsched.AtomicPoint("atomic.load", b); return b.v.Load() }
func (b *Value) Store(x any)    { vsched.AtomicPoint("atomic.store", b); b.v.Store(x) }
func (b *Value) Swap(x any) any { vsched.AtomicPoint("atomic.swap", b); return b.v.Swap(x) }
func (b *Value) CompareAndSwap(o, n any) bool {
	vsched.AtomicPoint("atomic.cas", b)
	return b.v.CompareAndSwap(o, n)
}

type Pointer[T any] struct{ v atomic.Pointer[T] }

func (b *Pointer[T]) Load() *T     { vsched.AtomicPoint("atomic.load", b); return b.v.Load() }
func (b *Pointer[T]) Store(x *T)   { vsched.AtomicPoint("atomic.store", b); b.v.Store(x) }
func (b *Pointer[T]) Swap(x *T) *T { vsched.AtomicPoint("atomic.swap", b); return b.v.Swap(x) }
func (b *Pointer[T]) CompareAndSwap(o, n *T) bool {
	vsched.AtomicPoint("atomic.cas", b)
	return b.v.CompareAndSwap(o, n)
}

func AddInt32(p *int32, d int32) int32 {
	vsched.AtomicPoint("atomic.add", p)
	return atomic.AddInt32(p, d)
}
func AddInt64(p *int64, d int64) int64 {
	vsched.AtomicPoint("atomic.add", p)
	return atomic.AddInt64(p, d)
}
func AddUint32(p *uint32, d uint32) uint32 {
	vsched.AtomicPoint("atomic.add", p)
	return atomic.AddUint32(p, d)
}
func AddUint64(p *uint64, d uint64) uint64 {
	vsched.AtomicPoint("atomic.add", p)
	return atomic.AddUint64(p, d)
}
func LoadInt32(p *int32) int32     { vsched.AtomicPoint("atomic.load", p); return atomic.LoadInt32(p) }
func LoadInt64(p *int64) int64     { vsched.AtomicPoint("atomic.load", p); return atomic.LoadInt64(p) }
func LoadUint32(p *uint32) uint32  { vsched.AtomicPoint("atomic.load", p); return atomic.LoadUint32(p) }
func LoadUint64(p *uint64) uint64  { vsched.AtomicPoint("atomic.load", p); return atomic.LoadUint64(p) }
func StoreInt32(p *int32, v int32) { vsched.AtomicPoint("atomic.store", p); atomic.StoreInt32(p, v) }
func StoreInt64(p *int64, v int64) { vsched.AtomicPoint("atomic.store", p); atomic.StoreInt64(p, v) }
func StoreUint32(p *uint32, v uint32) {
	vsched.AtomicPoint("atomic.store", p)
	atomic.StoreUint32(p, v)
}
func StoreUint64(p *uint64, v uint64) {
	vsched.AtomicPoint("atomic.store", p)
	atomic.StoreUint64(p, v)
}
func CompareAndSwapInt32(p *int32, o, n int32) bool {
	vsched.AtomicPoint("atomic.cas", p)
	return atomic.CompareAndSwapInt32(p, o, n)
}
func CompareAndSwapInt64(p *int64, o, n int64) bool {
	vsched.AtomicPoint("atomic.cas", p)
	return atomic.CompareAndSwapInt64(p, o, n)
}
func CompareAndSwapUint32(p *uint32, o, n uint32) bool {
	vsched.AtomicPoint("atomic.cas", p)
	return atomic.CompareAndSwapUint32(p, o, n)
}
