// Package memnet is the in-memory network of Engine C: a net.Listener and net.Conn pair whose every operation is a
// scheduling point and whose blocking (Accept without a pending connection, Read without data) is visible to the
// cooperative scheduler. It implements exactly the net.Conn contract the repository relies on:
// read deadline passed => os.ErrDeadlineExceeded, peer closed => io.EOF after the buffered data, local close =>
// net.ErrClosed, Dial succeeds before Accept (kernel backlog), closing the listener resets never-accepted connections.
package memnet

import (
	"errors"
	"io"
	"net"
	"os"
	"strconv"
	"time"

	"github.com/aldas/go-modbus-client/verifshim/vsched"
	"github.com/aldas/go-modbus-client/verifshim/vtime"
)

type addr string

func (a addr) Network() string { return "mem" }
func (a addr) String() string  { return string(a) }

// Event is one entry of the network log (what a black-box observer on the wire sees).
type Event struct {
	Thread int
	Conn   int
	Side   string // "srv" or "cli"
	Op     string // accept, dial, read, write, close, lclose
	Data   []byte
	Err    string
	AtNs   int64
}

// Net is one in-memory network (one listener).
type Net struct {
	L      *Listener
	Log    []Event
	nconn  int
	NoLog  bool
	Conns  []*Conn // server-side ends, in dial order
	Client []*Conn // client-side ends, in dial order
}

func New() *Net {
	n := &Net{}
	n.L = &Listener{net: n}
	return n
}

func (n *Net) log(e Event) {
	if n.NoLog {
		return
	}
	e.Thread = vsched.ThreadID()
	e.AtNs = vsched.NowNs()
	n.Log = append(n.Log, e)
}

// Listener implements net.Listener.
type Listener struct {
	net    *Net
	queue  []*Conn
	closed bool
	Closes int
}

var errRefused = errors.New("connection refused")

func (l *Listener) Accept() (net.Conn, error) {
	vsched.PointWhenObj("accept", func() bool { return len(l.queue) > 0 || l.closed }, 0, l)
	vsched.HBSync(l) // (happens-before: every operation on a listener / connection observes and publishes - a superset of the real edges)
	if l.closed {
		return nil, &net.OpError{Op: "accept", Net: "mem", Err: net.ErrClosed}
	}
	c := l.queue[0]
	l.queue = l.queue[1:]
	c.accepted = true
	l.net.log(Event{Conn: c.id, Side: "srv", Op: "accept"})
	return c, nil
}

func (l *Listener) Close() error {
	vsched.Point("lclose")
	vsched.HBSync(l)
	l.Closes++
	l.net.log(Event{Op: "lclose"})
	if l.closed {
		return &net.OpError{Op: "close", Net: "mem", Err: net.ErrClosed}
	}
	l.closed = true
	for _, c := range l.queue { // never accepted: the kernel resets them
		c.closed = true
		c.peer.peerClosed = true
	}
	l.queue = nil
	return nil
}

func (l *Listener) Addr() net.Addr { return addr("mem:502") }

// IsClosed reports whether the listener has been closed (harness observation, not a scheduling point).
func (l *Listener) IsClosed() bool { return l.closed }

// Dial connects a client; it succeeds as long as the listener is open, whether or not Accept is pending.
func (n *Net) Dial() (*Conn, error) {
	vsched.PointObj("dial", n.L)
	vsched.HBSync(n.L)
	if n.L.closed {
		n.log(Event{Side: "cli", Op: "dial", Err: "refused"})
		return nil, &net.OpError{Op: "dial", Net: "mem", Err: errRefused}
	}
	n.nconn++
	srv := &Conn{net: n, id: n.nconn, side: "srv"}
	cli := &Conn{net: n, id: n.nconn, side: "cli"}
	srv.peer, cli.peer = cli, srv
	srv.pair, cli.pair = srv, srv // the connection as one shared object (both directions, both ends)
	n.L.queue = append(n.L.queue, srv)
	n.Conns = append(n.Conns, srv)
	n.Client = append(n.Client, cli)
	n.log(Event{Conn: cli.id, Side: "cli", Op: "dial"})
	return cli, nil
}

// Conn is one end of an in-memory connection.
type Conn struct {
	net        *Net
	id         int
	side       string
	peer       *Conn
	pair       *Conn
	rbuf       []byte
	closed     bool // closed locally
	peerClosed bool
	accepted   bool
	rdl, wdl   time.Time
	Closes     int
	WriteErr   error // injected: the next writes fail with this error
}

func (c *Conn) ID() int { return c.id }

func (c *Conn) Read(p []byte) (int, error) {
	var dl int64
	if !c.rdl.IsZero() {
		dl = int64(c.rdl.Sub(vtime.Epoch()))
		if dl <= 0 {
			dl = 1
		}
	}
	pastDeadline := dl > 0 && vsched.NowNs() >= dl
	ready := func() bool { return len(c.rbuf) > 0 || c.peerClosed || c.closed }
	if c.side == "cli" {
		vsched.PointWhenHObj("read", ready, dl, c.pair)
	} else {
		vsched.PointWhenObj("read", ready, dl, c.pair)
	}
	vsched.HBSync(c.pair)
	if pastDeadline && !c.closed {
		return 0, &net.OpError{Op: "read", Net: "mem", Err: os.ErrDeadlineExceeded}
	}
	switch {
	case c.closed:
		return 0, &net.OpError{Op: "read", Net: "mem", Err: net.ErrClosed}
	case len(c.rbuf) > 0:
		n := copy(p, c.rbuf)
		c.rbuf = c.rbuf[n:]
		c.net.log(Event{Conn: c.id, Side: c.side, Op: "read", Data: append([]byte(nil), p[:n]...)})
		return n, nil
	case c.peerClosed:
		c.net.log(Event{Conn: c.id, Side: c.side, Op: "read", Err: "EOF"})
		return 0, io.EOF
	}
	return 0, &net.OpError{Op: "read", Net: "mem", Err: os.ErrDeadlineExceeded}
}

func (c *Conn) Write(p []byte) (int, error) {
	vsched.PointObj("write", c.pair)
	vsched.HBSync(c.pair)
	if c.closed {
		c.net.log(Event{Conn: c.id, Side: c.side, Op: "write", Data: append([]byte(nil), p...), Err: "closed"})
		return 0, &net.OpError{Op: "write", Net: "mem", Err: net.ErrClosed}
	}
	if c.WriteErr != nil {
		c.net.log(Event{Conn: c.id, Side: c.side, Op: "write", Data: append([]byte(nil), p...), Err: c.WriteErr.Error()})
		return 0, &net.OpError{Op: "write", Net: "mem", Err: c.WriteErr}
	}
	if !c.wdl.IsZero() && !vtime.Now().Before(c.wdl) {
		// a write deadline that has already passed (on the virtual clock): the write fails at once, nothing is sent
		c.net.log(Event{Conn: c.id, Side: c.side, Op: "write", Data: append([]byte(nil), p...), Err: "deadline"})
		return 0, &net.OpError{Op: "write", Net: "mem", Err: os.ErrDeadlineExceeded}
	}
	if c.peerClosed {
		c.net.log(Event{Conn: c.id, Side: c.side, Op: "write", Data: append([]byte(nil), p...), Err: "EPIPE"})
		return 0, &net.OpError{Op: "write", Net: "mem", Err: io.ErrClosedPipe}
	}
	c.peer.rbuf = append(c.peer.rbuf, p...)
	c.net.log(Event{Conn: c.id, Side: c.side, Op: "write", Data: append([]byte(nil), p...)})
	return len(p), nil
}

func (c *Conn) Close() error {
	vsched.PointObj("close", c.pair)
	vsched.HBSync(c.pair)
	c.Closes++
	if c.closed {
		c.net.log(Event{Conn: c.id, Side: c.side, Op: "close", Err: "closed"})
		return &net.OpError{Op: "close", Net: "mem", Err: net.ErrClosed}
	}
	c.closed = true
	c.peer.peerClosed = true
	c.net.log(Event{Conn: c.id, Side: c.side, Op: "close"})
	return nil
}

// IsClosed / PeerClosed are harness observations (no scheduling point).
func (c *Conn) IsClosed() bool   { return c.closed }
func (c *Conn) PeerClosed() bool { return c.peerClosed }
func (c *Conn) Accepted() bool   { return c.accepted }
func (c *Conn) Peer() *Conn      { return c.peer }
func (c *Conn) Pending() int     { return len(c.rbuf) }

func (c *Conn) LocalAddr() net.Addr  { return addr(c.side + "-" + strconv.Itoa(c.id)) }
func (c *Conn) RemoteAddr() net.Addr { return addr(c.peer.side + "-" + strconv.Itoa(c.id)) }
func (c *Conn) SetDeadline(t time.Time) error {
	c.rdl, c.wdl = t, t
	return nil
}
func (c *Conn) SetReadDeadline(t time.Time) error {
	if c.closed {
		return &net.OpError{Op: "set", Net: "mem", Err: net.ErrClosed}
	}
	c.rdl = t
	return nil
}
func (c *Conn) SetWriteDeadline(t time.Time) error {
	if c.closed {
		return &net.OpError{Op: "set", Net: "mem", Err: net.ErrClosed}
	}
	c.wdl = t
	return nil
}
