// Package explore is the stateless depth-first explorer of environment answers (Engine B).
// The body under exploration calls Ctx.Choose(n) at every point where the environment has n possible answers;
// choice 0 is the default answer. An execution is identified by its choice sequence. Explore enumerates every
// execution of the tree the body defines: it replays a prefix (an out-of-range choice during replay is a hard error)
// and then takes choice 0 at every later point; for every point at or beyond the prefix, every alternative is
// scheduled as a new prefix. Bounding (how many deviations of which kind are on offer) is the body's business:
// it simply stops offering alternatives when a budget is spent, so the tree is finite and is enumerated completely.
package explore

import "fmt"

// Point is one choice point of an execution.
type Point struct {
	N      int    `json:"n"`
	Chosen int    `json:"chosen"`
	Label  string `json:"label,omitempty"`
}

// Ctx is handed to the body for one execution.
type Ctx struct {
	prefix []int
	Points []Point
	budget map[string]int
	// Lenient (ReplayLenient): a recorded choice that is out of range where it is replayed is clamped instead of being a
	// divergence; Clamped counts how often that happened.
	Lenient bool
	Clamped int
	// Shadow marks an execution that only serves to enumerate the subtrees of a shard; it belongs to another shard,
	// so the body must not count or judge it.
	Shadow bool
}

// ReplayError is raised (as a panic) when a recorded prefix does not fit the execution it is replayed on.
type ReplayError struct{ Msg string }

func (e ReplayError) Error() string { return e.Msg }

// Choose returns the environment's answer at this point: the recorded one while replaying, 0 afterwards.
func (c *Ctx) Choose(n int, label string) int {
	if n < 1 {
		panic(ReplayError{fmt.Sprintf("explore: Choose(%d) at point %d (%s)", n, len(c.Points), label)})
	}
	ch := 0
	if i := len(c.Points); i < len(c.prefix) {
		ch = c.prefix[i]
		if c.Lenient && ch >= n {
			// (ReplayLenient) the recorded answer does not exist at this point of this execution: the nearest one that does
			c.Clamped++
			ch = n - 1
		}
		if ch < 0 || ch >= n {
			panic(ReplayError{fmt.Sprintf("explore: replay divergence at point %d (%s): recorded choice %d, only %d alternatives", i, label, ch, n)})
		}
	}
	c.Points = append(c.Points, Point{N: n, Chosen: ch, Label: label})
	return ch
}

// Budget bookkeeping for the body: Left reports what is left of a named deviation budget, Spend consumes it.
func (c *Ctx) SetBudget(class string, n int) {
	if c.budget == nil {
		c.budget = map[string]int{}
	}
	c.budget[class] = n
}
func (c *Ctx) Left(class string) int { return c.budget[class] }
func (c *Ctx) Spend(class string)    { c.budget[class]-- }

// Choices returns the choice sequence of this execution.
func (c *Ctx) Choices() []int {
	out := make([]int, len(c.Points))
	for i, p := range c.Points {
		out[i] = p.Chosen
	}
	return out
}

// Deviations counts non-default choices.
func (c *Ctx) Deviations() int {
	n := 0
	for _, p := range c.Points {
		if p.Chosen != 0 {
			n++
		}
	}
	return n
}

// Stats describes a completed exploration.
type Stats struct {
	Executions int64
	Points     int64 // choice points visited (transitions)
	MaxDepth   int
	MaxDev     int
	Truncated  bool // the execution cap was hit: NOT exhaustive
}

// Explore enumerates all executions of body. maxExec (0 = unlimited) caps the number of executions; hitting the cap
// is reported in Stats.Truncated and must be surfaced as exhaustive:false.
func Explore(body func(c *Ctx), maxExec int64) Stats {
	var st Stats
	stack := [][]int{nil}
	for len(stack) > 0 {
		if maxExec > 0 && st.Executions >= maxExec {
			st.Truncated = true
			return st
		}
		prefix := stack[len(stack)-1]
		stack = stack[:len(stack)-1]
		c := &Ctx{prefix: prefix}
		body(c)
		if len(c.Points) < len(prefix) {
			panic(ReplayError{fmt.Sprintf("explore: replay divergence: execution ended after %d points, prefix has %d", len(c.Points), len(prefix))})
		}
		st.Executions++
		st.Points += int64(len(c.Points))
		if len(c.Points) > st.MaxDepth {
			st.MaxDepth = len(c.Points)
		}
		if d := c.Deviations(); d > st.MaxDev {
			st.MaxDev = d
		}
		// schedule alternatives, deepest first so that the stack pops the simplest (fewest, earliest deviations) last...
		// order matters only for which counterexample is found first; iterate points from last to first so that
		// alternatives at early points are explored first (they sit on top of the stack).
		for i := len(c.Points) - 1; i >= len(prefix); i-- {
			for alt := c.Points[i].N - 1; alt >= 1; alt-- {
				np := make([]int, i+1)
				for j := 0; j < i; j++ {
					np[j] = c.Points[j].Chosen
				}
				np[i] = alt
				stack = append(stack, np)
			}
		}
	}
	return st
}

// Replay runs body once on the given choice sequence.
// ReplayLenient replays choices on an execution that may offer fewer alternatives at some points than the execution the
// choices were recorded on (a client that reads through a smaller window is offered fewer ways to cut a read): an
// out-of-range choice is clamped to the largest one offered, and once the recorded choices are used up the default is taken.
func ReplayLenient(body func(c *Ctx), choices []int) *Ctx {
	c := &Ctx{prefix: choices, Lenient: true}
	body(c)
	return c
}

func Replay(body func(c *Ctx), choices []int) *Ctx {
	c := &Ctx{prefix: choices}
	body(c)
	return c
}

// ExploreShard enumerates the part of body's execution tree that belongs to shard `shard` of n. The first UpperBudget
// executions in breadth-first order (the root execution, its children, ...; at most ShardDepth levels) are run by every
// shard (as Shadow executions except on shard 0, which is the one that counts and judges them); the subtrees hanging
// below them are numbered in that same order and subtree j belongs to shard j mod n. stop (may be nil) is polled between executions; when it returns true the
// exploration ends early and Stats.Truncated is set.
func ExploreShard(body func(c *Ctx), shard, n int, stop func() bool) Stats {
	var st Stats
	account := func(c *Ctx) {
		st.Executions++
		st.Points += int64(len(c.Points))
		if len(c.Points) > st.MaxDepth {
			st.MaxDepth = len(c.Points)
		}
		if d := c.Deviations(); d > st.MaxDev {
			st.MaxDev = d
		}
	}
	children := func(c *Ctx, from int) [][]int {
		var out [][]int
		if len(c.Points) > MaxPoints {
			st.Truncated = true // a runaway execution: its alternatives are not scheduled (reported as not exhaustive)
			return nil
		}
		for i := len(c.Points) - 1; i >= from; i-- {
			for alt := c.Points[i].N - 1; alt >= 1; alt-- {
				np := make([]int, i+1)
				for k := 0; k < i; k++ {
					np[k] = c.Points[k].Chosen
				}
				np[i] = alt
				out = append(out, np)
			}
		}
		return out
	}
	depth := ShardDepth
	if n <= 1 {
		depth = 0
	}
	// upper part: breadth-first over the first `depth` levels, identical on every shard
	type node struct {
		prefix []int
		level  int
	}
	var stack [][]int
	j, upperRun := 0, 0
	upper := []node{{nil, 0}}
	for len(upper) > 0 {
		nd := upper[0]
		upper = upper[1:]
		if (nd.level >= depth || upperRun >= UpperBudget) && n > 1 {
			if j%n == shard {
				stack = append(stack, nd.prefix)
			}
			j++
			continue
		}
		if n <= 1 {
			stack = append(stack, nd.prefix)
			continue
		}
		if stop != nil && stop() {
			st.Truncated = true
			return st
		}
		upperRun++
		c := &Ctx{prefix: nd.prefix, Shadow: shard != 0}
		body(c)
		if len(c.Points) < len(nd.prefix) {
			panic(ReplayError{fmt.Sprintf("explore: replay divergence: execution ended after %d points, prefix has %d", len(c.Points), len(nd.prefix))})
		}
		if !c.Shadow {
			account(c)
		}
		for _, ch := range children(c, len(nd.prefix)) {
			upper = append(upper, node{ch, nd.level + 1})
		}
	}
	for len(stack) > 0 {
		if stop != nil && stop() {
			st.Truncated = true
			return st
		}
		prefix := stack[len(stack)-1]
		stack = stack[:len(stack)-1]
		c := &Ctx{prefix: prefix}
		body(c)
		if len(c.Points) < len(prefix) {
			panic(ReplayError{fmt.Sprintf("explore: replay divergence: execution ended after %d points, prefix has %d", len(c.Points), len(prefix))})
		}
		account(c)
		stack = append(stack, children(c, len(prefix))...)
	}
	return st
}

// ShardDepth is the maximal number of tree levels every shard enumerates itself before the subtrees are dealt out;
// UpperBudget bounds the number of executions spent on that (breadth-first, so identical on every shard).
var (
	ShardDepth  = 6
	UpperBudget = 48
)

// MaxPoints bounds the number of choice points of one execution whose alternatives ExploreShard still schedules.
var MaxPoints = 4000

// PrefixLen is the number of choices this execution replayed from its prefix.
func (c *Ctx) PrefixLen() int { return len(c.prefix) }
