package main

import (
	"go/ast"
	"go/token"
)

// instrumentC is filled in with the scheduler instrumentation (see modec_impl.go once Engine C exists).
func instrumentC(fset *token.FileSet, f *ast.File, rel string) error {
	return instrumentCImpl(fset, f, rel)
}
