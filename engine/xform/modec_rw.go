package main

import (
	"fmt"
	"go/ast"
	"go/token"
)

// Reads and writes of mutable struct fields, reported to the happens-before race detector of the scheduler
// (vsched.R / vsched.W, see shim/vsched/hb.go).
//
// An access is reported only where its moment of execution relative to the calls of the same statement is certain:
//
//	statement without calls                  every access, before the statement
//	x.f = g(..) / x.f, err = g(..)           the write, after the statement (an assignment happens after its operands)
//	exactly one call, x.f inside that call   the read (receiver or argument: evaluated before the call), before the statement
//	anything else                            not reported
//
// (between a call and a plain operand of the same statement the language leaves the order open and the compiler reorders;
// a call may synchronise, so an access placed on the wrong side of it would be given the wrong clock.) The object of an
// access is the value of the selector's base expression, which must be a plain chain of identifiers evaluated a second
// time; bases that could fault where the original would not (under && / ||, in an else-if header) must be single
// identifiers.

var builtinCalls = map[string]bool{
	"len": true, "cap": true, "append": true, "copy": true, "delete": true, "make": true, "new": true, "min": true,
	"max": true, "clear": true, "panic": true, "recover": true, "print": true, "println": true, "complex": true,
	"real": true, "imag": true,
	"byte": true, "rune": true, "string": true, "bool": true, "uintptr": true, "any": true,
	"int": true, "int8": true, "int16": true, "int32": true, "int64": true,
	"uint": true, "uint8": true, "uint16": true, "uint32": true, "uint64": true, "float32": true, "float64": true,
}

func realCall(c *ast.CallExpr) bool {
	switch f := c.Fun.(type) {
	case *ast.Ident:
		return !builtinCalls[f.Name]
	case *ast.SelectorExpr:
		if id, ok := f.X.(*ast.Ident); ok && id.Name == "vsched" {
			return false
		}
	case *ast.ArrayType, *ast.MapType, *ast.ChanType, *ast.FuncType, *ast.InterfaceType, *ast.StructType:
		return false
	case *ast.ParenExpr:
		if _, ok := f.X.(*ast.StarExpr); ok { // (*T)(x)
			return false
		}
	}
	return true
}

type fieldAccess struct {
	sel     *ast.SelectorExpr
	write   bool
	guarded bool          // evaluated only under a condition the instrumentation does not repeat
	in      *ast.CallExpr // innermost real call whose receiver chain or arguments contain the selector (nil: none)
	lhs     bool          // a write through the left-hand side of the statement itself
}

type rwScan struct {
	ci    *cinst
	accs  []fieldAccess
	calls []*ast.CallExpr
	errC  bool // a call X.Err() is present (context: acquires whatever the canceller released)
}

// expr walks e in read context.
func (r *rwScan) expr(e ast.Expr, guarded bool, in *ast.CallExpr) {
	if e == nil {
		return
	}
	switch x := e.(type) {
	case *ast.FuncLit:
		return
	case *ast.ParenExpr:
		r.expr(x.X, guarded, in)
	case *ast.SelectorExpr:
		if r.ci.tracked[x.Sel.Name] {
			r.accs = append(r.accs, fieldAccess{sel: x, guarded: guarded, in: in})
		}
		r.expr(x.X, guarded, in)
	case *ast.UnaryExpr:
		if x.Op == token.AND {
			// &x.f: what is done through the pointer is not known - the field itself is not reported, its base is read
			inner := x.X
			for {
				if p, ok := inner.(*ast.ParenExpr); ok {
					inner = p.X
					continue
				}
				break
			}
			if se, ok := inner.(*ast.SelectorExpr); ok {
				r.expr(se.X, guarded, in)
				return
			}
			if cl, ok := inner.(*ast.CompositeLit); ok {
				r.expr(cl, guarded, in)
				return
			}
		}
		r.expr(x.X, guarded, in)
	case *ast.BinaryExpr:
		r.expr(x.X, guarded, in)
		g := guarded || x.Op == token.LAND || x.Op == token.LOR
		r.expr(x.Y, g, in)
	case *ast.CallExpr:
		if !realCall(x) {
			// builtins: delete / copy / clear write their first argument
			if id, ok := x.Fun.(*ast.Ident); ok && (id.Name == "delete" || id.Name == "copy" || id.Name == "clear") && len(x.Args) > 0 {
				r.target(x.Args[0], guarded, in, false)
				for _, a := range x.Args[1:] {
					r.expr(a, guarded, in)
				}
				return
			}
			if _, isSel := x.Fun.(*ast.SelectorExpr); isSel { // vsched.X(...)
				for _, a := range x.Args {
					r.expr(a, guarded, in)
				}
				return
			}
			for _, a := range x.Args {
				r.expr(a, guarded, in)
			}
			return
		}
		r.calls = append(r.calls, x)
		if se, ok := x.Fun.(*ast.SelectorExpr); ok {
			if se.Sel.Name == "Err" && len(x.Args) == 0 {
				r.errC = true
			}
			r.expr(se.X, guarded, x) // the receiver chain (the method name itself is not a field access)
		} else {
			r.expr(x.Fun, guarded, x)
		}
		for _, a := range x.Args {
			r.expr(a, guarded, x)
		}
	case *ast.IndexExpr:
		r.expr(x.X, guarded, in)
		r.expr(x.Index, guarded, in)
	case *ast.IndexListExpr:
		r.expr(x.X, guarded, in)
	case *ast.SliceExpr:
		r.expr(x.X, guarded, in)
		r.expr(x.Low, guarded, in)
		r.expr(x.High, guarded, in)
		r.expr(x.Max, guarded, in)
	case *ast.StarExpr:
		r.expr(x.X, guarded, in)
	case *ast.TypeAssertExpr:
		r.expr(x.X, guarded, in)
	case *ast.KeyValueExpr:
		r.expr(x.Value, guarded, in) // (the key of a struct literal is a field name, not an access)
	case *ast.CompositeLit:
		for _, el := range x.Elts {
			r.expr(el, guarded, in)
		}
	}
}

// target walks an assignment target (or the first argument of delete / copy / clear): the outermost tracked selector
// reached through index and parenthesis is written, everything else is read.
func (r *rwScan) target(e ast.Expr, guarded bool, in *ast.CallExpr, lhs bool) {
	for {
		switch t := e.(type) {
		case *ast.ParenExpr:
			e = t.X
			continue
		case *ast.IndexExpr:
			r.expr(t.Index, guarded, in)
			e = t.X
			continue
		case *ast.SliceExpr:
			e = t.X
			continue
		}
		break
	}
	if se, ok := e.(*ast.SelectorExpr); ok {
		if r.ci.tracked[se.Sel.Name] {
			r.accs = append(r.accs, fieldAccess{sel: se, write: true, guarded: guarded, in: in, lhs: lhs})
		}
		r.expr(se.X, guarded, in)
		return
	}
	r.expr(e, guarded, in) // *p = v, local = v, ...
}

func (r *rwScan) simpleStmt(s ast.Stmt, guarded bool, top bool) {
	switch x := s.(type) {
	case nil:
	case *ast.AssignStmt:
		for _, rh := range x.Rhs {
			r.expr(rh, guarded, nil)
		}
		if x.Tok != token.DEFINE {
			for _, l := range x.Lhs {
				r.target(l, guarded, nil, top)
			}
		}
	case *ast.IncDecStmt:
		r.target(x.X, guarded, nil, top)
	case *ast.ExprStmt:
		r.expr(x.X, guarded, nil)
	case *ast.SendStmt:
		r.expr(x.Chan, guarded, nil)
		r.expr(x.Value, guarded, nil)
	case *ast.ReturnStmt:
		for _, e := range x.Results {
			r.expr(e, guarded, nil)
		}
	case *ast.DeferStmt:
		r.deferred(x.Call, guarded)
	case *ast.GoStmt:
		r.deferred(x.Call, guarded)
	case *ast.DeclStmt:
		if gd, ok := x.Decl.(*ast.GenDecl); ok {
			for _, sp := range gd.Specs {
				if vs, ok := sp.(*ast.ValueSpec); ok {
					for _, v := range vs.Values {
						r.expr(v, guarded, nil)
					}
				}
			}
		}
	}
}

// deferred: the call of a defer / go statement does not run now, its receiver and arguments are evaluated now.
func (r *rwScan) deferred(c *ast.CallExpr, guarded bool) {
	if se, ok := c.Fun.(*ast.SelectorExpr); ok {
		r.expr(se.X, guarded, nil)
	} else if _, isLit := c.Fun.(*ast.FuncLit); !isLit {
		r.expr(c.Fun, guarded, nil)
	}
	for _, a := range c.Args {
		r.expr(a, guarded, nil)
	}
}

func (r *rwScan) stmt(st ast.Stmt) {
	switch x := st.(type) {
	case *ast.IfStmt:
		guarded := false
		for cur := x; cur != nil; {
			r.simpleStmt(cur.Init, guarded, false)
			r.expr(cur.Cond, guarded, nil)
			guarded = true // the else-if headers run only when the earlier conditions were false
			next, _ := cur.Else.(*ast.IfStmt)
			cur = next
		}
	case *ast.ForStmt:
		r.simpleStmt(x.Init, false, false)
		r.expr(x.Cond, false, nil)
	case *ast.RangeStmt:
		r.expr(x.X, false, nil)
	case *ast.SwitchStmt:
		r.simpleStmt(x.Init, false, false)
		r.expr(x.Tag, false, nil)
	case *ast.TypeSwitchStmt:
		r.simpleStmt(x.Init, false, false)
		r.simpleStmt(x.Assign, false, false)
	case *ast.LabeledStmt:
		r.stmt(x.Stmt)
	case *ast.SelectStmt, *ast.BlockStmt, *ast.CaseClause, *ast.CommClause:
	default:
		r.simpleStmt(st, false, true)
	}
}

// baseOK tells whether the base expression of a selector may be evaluated a second time as the identity of the object.
func (ci *cinst) baseOK(e ast.Expr, guarded bool, st ast.Stmt) bool {
	switch x := e.(type) {
	case *ast.Ident:
		if x.Name == "_" || x.Obj == nil || x.Obj.Kind != ast.Var {
			return false // a package, a type, or something declared in another file: cannot tell
		}
		if p := x.Obj.Pos(); p >= st.Pos() && p < st.End() {
			return false // declared by the statement's own init clause: not in scope before it
		}
		return true
	case *ast.SelectorExpr:
		return !guarded && ci.baseOK(x.X, guarded, st)
	case *ast.ParenExpr:
		return ci.baseOK(x.X, guarded, st)
	}
	return false
}

// chanAcquire returns the happens-before statement for a receive from ch that has just succeeded in a select case.
func (ci *cinst) chanAcquire(ch ast.Expr, st ast.Stmt) ast.Stmt {
	simple := false
	switch x := ch.(type) {
	case *ast.Ident, *ast.SelectorExpr:
		simple = ci.baseOK(ch, false, st)
	case *ast.CallExpr: // ctx.Done()
		if se, ok := x.Fun.(*ast.SelectorExpr); ok && len(x.Args) == 0 && se.Sel.Name == "Done" {
			simple = ci.baseOK(se.X, false, st)
		}
	}
	var out ast.Stmt
	if simple {
		out = call("vsched", "HBChanRecv", cloneExpr(ch))
	} else {
		out = call("vsched", "HBAcquireAll")
	}
	ci.gen[out] = true
	return out
}

func (ci *cinst) rwCall(a fieldAccess, where string, tentative bool) ast.Stmt {
	fn := "R"
	if a.write {
		fn = "W"
	} else if tentative {
		fn = "RT"
	}
	st := call("vsched", fn, cloneExpr(a.sel.X), strLit(a.sel.Sel.Name), strLit(where))
	ci.gen[st] = true
	return st
}

// cloneExpr copies an identifier / selector chain (the only shapes baseOK admits).
func cloneExpr(e ast.Expr) ast.Expr {
	switch x := e.(type) {
	case *ast.Ident:
		return ast.NewIdent(x.Name)
	case *ast.SelectorExpr:
		return &ast.SelectorExpr{X: cloneExpr(x.X), Sel: ast.NewIdent(x.Sel.Name)}
	case *ast.ParenExpr:
		return cloneExpr(x.X)
	case *ast.CallExpr: // X.Done()
		return &ast.CallExpr{Fun: cloneExpr(x.Fun)}
	}
	panic(fmt.Sprintf("cloneExpr: %T", e))
}

// rw returns the access reports to put before and after st.
func (ci *cinst) rw(st ast.Stmt, line int) (pre, post []ast.Stmt) {
	r := &rwScan{ci: ci}
	r.stmt(st)
	where := fmt.Sprintf("%s:%d", ci.rel, line)
	if r.errC {
		a := call("vsched", "HBAcquireAll")
		ci.gen[a] = true
		pre = append(pre, a)
	}
	if len(r.accs) == 0 {
		return pre, nil
	}
	_, isAssign := st.(*ast.AssignStmt)
	seen := map[string]bool{}
	tentative := false
	for _, a := range r.accs {
		if a.guarded {
			continue // may not be evaluated at all: reporting an access that does not happen could invent a race
		}
		if !ci.baseOK(a.sel.X, a.guarded, st) {
			continue
		}
		key := fmt.Sprintf("%v %s %v", exprString(a.sel.X), a.sel.Sel.Name, a.write)
		if seen[key] {
			continue
		}
		switch {
		case len(r.calls) == 0:
			seen[key] = true
			pre = append(pre, ci.rwCall(a, where, false))
		case a.write && a.lhs && isAssign:
			seen[key] = true
			post = append(post, ci.rwCall(a, where, false))
		case !a.write && len(r.calls) == 1 && a.in == r.calls[0]:
			seen[key] = true
			pre = append(pre, ci.rwCall(a, where, false))
		case !a.write:
			// somewhere among the calls of this statement: tentative until the thread's next synchronisation (vsched.RT)
			seen[key] = true
			tentative = true
			pre = append(pre, ci.rwCall(a, where, true))
		}
	}
	if tentative {
		// the end of the statement ends the uncertainty: after it, in the bodies it guards, and (for statements that leave
		// the function or the loop) nowhere - the next synchronisation of the thread commits them
		flush := func() ast.Stmt {
			f := call("vsched", "Flush")
			ci.gen[f] = true
			return f
		}
		inner := st
		if l, ok := inner.(*ast.LabeledStmt); ok {
			inner = l.Stmt
		}
		switch x := inner.(type) {
		case *ast.ReturnStmt, *ast.BranchStmt:
		case *ast.IfStmt:
			x.Body.List = append([]ast.Stmt{flush()}, x.Body.List...)
			if eb, ok := x.Else.(*ast.BlockStmt); ok {
				eb.List = append([]ast.Stmt{flush()}, eb.List...)
			}
			post = append(post, flush())
		case *ast.ForStmt:
			x.Body.List = append([]ast.Stmt{flush()}, x.Body.List...)
			post = append(post, flush())
		case *ast.RangeStmt:
			x.Body.List = append([]ast.Stmt{flush()}, x.Body.List...)
			post = append(post, flush())
		default:
			post = append(post, flush())
		}
	}
	return pre, post
}

func exprString(e ast.Expr) string {
	switch x := e.(type) {
	case *ast.Ident:
		return x.Name
	case *ast.SelectorExpr:
		return exprString(x.X) + "." + x.Sel.Name
	case *ast.ParenExpr:
		return exprString(x.X)
	}
	return fmt.Sprintf("%T@%d", e, e.Pos())
}
