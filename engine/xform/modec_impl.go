package main

import (
	"fmt"
	"go/ast"
	"go/token"
	"strconv"
)

// Mode C instrumentation. All rewrites work on statement lists (block, case and comm-clause bodies):
//
//	go f(a, b)                       -> { _vf, _va0, _va1 := f, a, b; vsched.Go(func() { _vf(_va0, _va1) }) }
//	select without default           -> vsched.Point; _vlN: select { ...; default: vsched.WaitExternal(); goto _vlN }
//	select with default              -> preceded by vsched.Point("select")
//	<-ch (statement)                 -> same loop around select { case <-ch: }
//	for k := range x.mapField        -> for _, k := range vsched.Keys(x.mapField)
//	x.mapField[k] = v                -> followed by vsched.Note(k)
//	stmt mentioning a mutable field  -> preceded by vsched.Access("file:line field")
//
// Anything else that can block or spawn (a go statement outside a statement list, a range over a channel) is refused.
type cinst struct {
	fset    *token.FileSet
	rel     string
	tracked map[string]bool // mutable field names
	mapFld  map[string]bool // map-typed field names
	n       int
	err     error
	gen     map[ast.Stmt]bool // statements produced by the rewrite itself
	waitPkg string            // package of WaitExternal in the retry clause of blocking selects ("" = vsched)
}

func instrumentCImpl(fset *token.FileSet, f *ast.File, rel string) error {
	ci := &cinst{fset: fset, rel: rel, tracked: map[string]bool{}, mapFld: map[string]bool{}, gen: map[ast.Stmt]bool{}}
	ci.analyse(f)
	ast.Inspect(f, func(n ast.Node) bool {
		switch x := n.(type) {
		case *ast.BlockStmt:
			x.List = ci.list(x.List)
		case *ast.CaseClause:
			x.Body = ci.list(x.Body)
		case *ast.CommClause:
			x.Body = ci.list(x.Body)
		}
		return ci.err == nil
	})
	if ci.err != nil {
		return ci.err
	}
	rewriteRecvInit(f, "vsched")
	rewriteRecvInExpr(f, "vsched")
	// context.AfterFunc starts a goroutine inside the standard library: route it to the scheduler
	ast.Inspect(f, func(n ast.Node) bool {
		if se, ok := n.(*ast.SelectorExpr); ok && se.Sel.Name == "AfterFunc" {
			if id, ok := se.X.(*ast.Ident); ok && id.Name == "context" && id.Obj == nil {
				se.X = ast.NewIdent("vsched")
				se.Sel = ast.NewIdent("ContextAfterFunc")
			}
		}
		return true
	})
	if err := ci.verify(f); err != nil {
		return err
	}
	uses := false
	ast.Inspect(f, func(n ast.Node) bool {
		if se, ok := n.(*ast.SelectorExpr); ok {
			if id, ok := se.X.(*ast.Ident); ok && id.Name == "vsched" {
				uses = true
			}
		}
		return !uses
	})
	if uses {
		addImport(f, shimBase+"vsched", "vsched")
	}
	return nil
}

func addImport(f *ast.File, path, name string) {
	for _, imp := range f.Imports {
		if p, _ := strconv.Unquote(imp.Path.Value); p == path && imp.Name != nil && imp.Name.Name == name {
			return
		}
	}
	spec := &ast.ImportSpec{Name: ast.NewIdent(name), Path: &ast.BasicLit{Kind: token.STRING, Value: strconv.Quote(path)}}
	for _, d := range f.Decls {
		if gd, ok := d.(*ast.GenDecl); ok && gd.Tok == token.IMPORT {
			gd.Specs = append(gd.Specs, spec)
			if !gd.Lparen.IsValid() {
				gd.Lparen = gd.Pos()
				gd.Rparen = gd.End()
			}
			f.Imports = append(f.Imports, spec)
			return
		}
	}
	gd := &ast.GenDecl{Tok: token.IMPORT, Specs: []ast.Spec{spec}}
	f.Decls = append([]ast.Decl{gd}, f.Decls...)
	f.Imports = append(f.Imports, spec)
}

// analyse finds the struct types declared in the file, their map-typed fields, and the fields assigned outside
// constructor contexts (top-level functions without receiver that return one of the structs or a function value).
func (ci *cinst) analyse(f *ast.File) {
	structs := map[string]map[string]bool{}
	for _, d := range f.Decls {
		gd, ok := d.(*ast.GenDecl)
		if !ok || gd.Tok != token.TYPE {
			continue
		}
		for _, sp := range gd.Specs {
			ts := sp.(*ast.TypeSpec)
			st, ok := ts.Type.(*ast.StructType)
			if !ok {
				continue
			}
			fields := map[string]bool{}
			for _, fl := range st.Fields.List {
				for _, nm := range fl.Names {
					fields[nm.Name] = true
					if _, isMap := fl.Type.(*ast.MapType); isMap {
						ci.mapFld[nm.Name] = true
						ci.tracked[nm.Name] = true
					}
				}
			}
			structs[ts.Name.Name] = fields
		}
	}
	allFields := map[string]bool{}
	for _, fs := range structs {
		for k := range fs {
			allFields[k] = true
		}
	}
	isCtor := func(fd *ast.FuncDecl) bool {
		if fd.Recv != nil || fd.Type.Results == nil {
			return false
		}
		for _, r := range fd.Type.Results.List {
			t := r.Type
			if st, ok := t.(*ast.StarExpr); ok {
				t = st.X
			}
			switch tt := t.(type) {
			case *ast.Ident:
				if _, ok := structs[tt.Name]; ok {
					return true
				}
				if len(tt.Name) > 4 && tt.Name[len(tt.Name)-4:] == "Func" { // named option-function types
					return true
				}
			case *ast.FuncType:
				return true
			}
		}
		return false
	}
	for _, d := range f.Decls {
		fd, ok := d.(*ast.FuncDecl)
		if !ok || fd.Body == nil || isCtor(fd) {
			continue
		}
		ast.Inspect(fd.Body, func(n ast.Node) bool {
			mark := func(e ast.Expr) {
				// x.f = ..., x.f[k] = ..., x.f.g = ... : the outermost selector on a declared field name
				for {
					switch t := e.(type) {
					case *ast.IndexExpr:
						e = t.X
						continue
					case *ast.ParenExpr:
						e = t.X
						continue
					case *ast.StarExpr:
						e = t.X
						continue
					}
					break
				}
				if se, ok := e.(*ast.SelectorExpr); ok && allFields[se.Sel.Name] {
					ci.tracked[se.Sel.Name] = true
				}
			}
			switch x := n.(type) {
			case *ast.AssignStmt:
				if x.Tok != token.DEFINE {
					for _, l := range x.Lhs {
						mark(l)
					}
				}
			case *ast.IncDecStmt:
				mark(x.X)
			case *ast.CallExpr:
				if id, ok := x.Fun.(*ast.Ident); ok && id.Name == "delete" && len(x.Args) > 0 {
					mark(x.Args[0])
				}
			}
			return true
		})
	}
}

func (ci *cinst) fail(pos token.Pos, format string, a ...any) {
	if ci.err == nil {
		ci.err = fmt.Errorf("%s: %s", ci.fset.Position(pos), fmt.Sprintf(format, a...))
	}
}

func call(pkg, fn string, args ...ast.Expr) *ast.ExprStmt {
	return &ast.ExprStmt{X: &ast.CallExpr{Fun: &ast.SelectorExpr{X: ast.NewIdent(pkg), Sel: ast.NewIdent(fn)}, Args: args}}
}

func strLit(s string) ast.Expr { return &ast.BasicLit{Kind: token.STRING, Value: strconv.Quote(s)} }

// mentions returns the tracked field names that the expressions of n mention, not descending into function literals
// or nested statement bodies.
func (ci *cinst) mentions(nodes ...ast.Node) []string {
	seen := map[string]bool{}
	var out []string
	for _, n := range nodes {
		if n == nil || isNilNode(n) {
			continue
		}
		ast.Inspect(n, func(x ast.Node) bool {
			switch t := x.(type) {
			case *ast.FuncLit:
				return false
			case *ast.BlockStmt:
				return false
			case *ast.SelectorExpr:
				if ci.tracked[t.Sel.Name] && !seen[t.Sel.Name] {
					seen[t.Sel.Name] = true
					out = append(out, t.Sel.Name)
				}
			}
			return true
		})
	}
	return out
}

func isNilNode(n ast.Node) bool {
	switch t := n.(type) {
	case ast.Expr:
		return t == nil
	case ast.Stmt:
		return t == nil
	}
	return false
}

// header returns the parts of a statement that are evaluated when control reaches it (not nested bodies).
func header(st ast.Stmt) []ast.Node {
	var out []ast.Node
	add := func(n ast.Node) {
		if n != nil && !isNilNode(n) {
			out = append(out, n)
		}
	}
	switch x := st.(type) {
	case *ast.IfStmt:
		if x.Init != nil {
			add(x.Init)
		}
		add(x.Cond)
		if e, ok := x.Else.(*ast.IfStmt); ok {
			out = append(out, header(e)...)
		}
	case *ast.ForStmt:
		if x.Init != nil {
			add(x.Init)
		}
		if x.Cond != nil {
			add(x.Cond)
		}
	case *ast.RangeStmt:
		add(x.X)
	case *ast.SwitchStmt:
		if x.Init != nil {
			add(x.Init)
		}
		if x.Tag != nil {
			add(x.Tag)
		}
	case *ast.TypeSwitchStmt:
		if x.Init != nil {
			add(x.Init)
		}
		add(x.Assign)
	case *ast.SelectStmt, *ast.BlockStmt:
	case *ast.CaseClause, *ast.CommClause:
		// the clauses of a switch / select body are not statements one can put something in front of; their own bodies
		// are statement lists and are handled as such
	case *ast.LabeledStmt:
		return header(x.Stmt)
	default:
		add(st)
	}
	return out
}

func (ci *cinst) list(in []ast.Stmt) []ast.Stmt {
	var out []ast.Stmt
	for _, st := range in {
		if es, ok := st.(*ast.ExprStmt); ok {
			if c, ok := es.X.(*ast.CallExpr); ok {
				if se, ok := c.Fun.(*ast.SelectorExpr); ok {
					if id, ok := se.X.(*ast.Ident); ok && id.Name == "vsched" {
						out = append(out, st) // already instrumented (a list can be visited through a rewritten parent)
						continue
					}
				}
			}
		}
		if ci.gen[st] {
			out = append(out, st)
			continue
		}
		line := ci.fset.Position(st.Pos()).Line
		if flds := ci.mentions(header(st)...); len(flds) > 0 {
			lbl := fmt.Sprintf("%s:%d", ci.rel, line)
			for _, f := range flds {
				lbl += " " + f
			}
			out = append(out, call("vsched", "Access", strLit(lbl)))
		}
		pre, post := ci.rw(st, line)
		out = append(out, pre...)
		out = ci.stmt(st, line, out)
		out = append(out, post...)
	}
	return out
}

// stmt rewrites one statement of a list (see the table at the top) and appends the result to out.
func (ci *cinst) stmt(st ast.Stmt, line int, out []ast.Stmt) []ast.Stmt {
	switch x := st.(type) {
	case *ast.GoStmt:
		out = append(out, ci.goStmt(x))
		return out
	case *ast.SelectStmt:
		pre, sel := ci.selectWhole(x, line)
		out = append(out, pre...)
		out = append(out, sel)
		return out
	case *ast.ExprStmt:
		if u, ok := x.X.(*ast.UnaryExpr); ok && u.Op == token.ARROW {
			// <-ch  ->  vsched.Recv(ch)
			x.X = &ast.CallExpr{Fun: &ast.SelectorExpr{X: ast.NewIdent("vsched"), Sel: ast.NewIdent("Recv")}, Args: []ast.Expr{u.X}}
			out = append(out, st)
			return out
		}
		if c, ok := x.X.(*ast.CallExpr); ok {
			if id, ok := c.Fun.(*ast.Ident); ok && id.Name == "close" && len(c.Args) == 1 {
				c.Fun = &ast.SelectorExpr{X: ast.NewIdent("vsched"), Sel: ast.NewIdent("Close")}
			}
		}
	case *ast.SendStmt:
		// ch <- v  ->  vsched.Send(ch, v)
		out = append(out, &ast.ExprStmt{X: &ast.CallExpr{Fun: &ast.SelectorExpr{X: ast.NewIdent("vsched"), Sel: ast.NewIdent("Send")}, Args: []ast.Expr{x.Chan, x.Value}}})
		return out
	case *ast.LabeledStmt:
		if sel, ok := x.Stmt.(*ast.SelectStmt); ok {
			pre, st2 := ci.selectWhole(sel, line)
			out = append(out, pre...)
			if ls, ok := st2.(*ast.LabeledStmt); ok {
				// _vlN: L: select {...}  (L must label the select itself for `break L`; the retry label goes outside)
				x.Stmt = ls.Stmt
				ls.Stmt = x
				ci.gen[x] = true
				out = append(out, ls)
			} else {
				x.Stmt = st2
				ci.gen[x] = true
				out = append(out, x)
			}
			return out
		}
	case *ast.RangeStmt:
		if se, ok := x.X.(*ast.SelectorExpr); ok && ci.mapFld[se.Sel.Name] {
			if x.Value != nil && x.Key != nil {
				// for k, v := range x.m { body }  ->  for _, k := range vsched.Keys(x.m) { v := x.m[k]; body }
				if id, ok := x.Value.(*ast.Ident); !ok || id.Name != "_" {
					get := &ast.AssignStmt{Lhs: []ast.Expr{x.Value}, Tok: x.Tok, Rhs: []ast.Expr{&ast.IndexExpr{X: cloneExpr(x.X), Index: x.Key}}}
					ci.gen[get] = true
					x.Body.List = append([]ast.Stmt{get}, x.Body.List...)
				}
				x.Value = nil
				if kid, ok := x.Key.(*ast.Ident); ok && kid.Name == "_" {
					ci.fail(x.Pos(), "range over map field %s with a blank key and a value: not supported", se.Sel.Name)
				}
			}
			if x.Key != nil {
				x.Value = x.Key
				x.Key = ast.NewIdent("_")
			}
			x.X = &ast.CallExpr{Fun: &ast.SelectorExpr{X: ast.NewIdent("vsched"), Sel: ast.NewIdent("Keys")}, Args: []ast.Expr{x.X}}
		}
	case *ast.AssignStmt:
		if len(x.Rhs) == 1 {
			if u, ok := x.Rhs[0].(*ast.UnaryExpr); ok && u.Op == token.ARROW {
				fn := "Recv"
				if len(x.Lhs) == 2 {
					fn = "Recv2"
				}
				x.Rhs[0] = &ast.CallExpr{Fun: &ast.SelectorExpr{X: ast.NewIdent("vsched"), Sel: ast.NewIdent(fn)}, Args: []ast.Expr{u.X}}
			}
		}
		out = append(out, st)
		for _, l := range x.Lhs {
			if ix, ok := l.(*ast.IndexExpr); ok {
				if se, ok := ix.X.(*ast.SelectorExpr); ok && ci.mapFld[se.Sel.Name] {
					out = append(out, call("vsched", "Note", ix.Index))
				}
			}
		}
		return out
	}
	out = append(out, st)
	return out
}

// selectWhole instruments a select statement: the statements to put before it and the rewritten statement.
func (ci *cinst) selectWhole(x *ast.SelectStmt, line int) (out []ast.Stmt, sel ast.Stmt) {
	out = append(out, call("vsched", "Point", strLit(fmt.Sprintf("%s:%d select", ci.rel, line))))
	hasSend := false
	for _, c := range x.Body.List {
		// a communication that succeeded may be what another thread is waiting for (channel as semaphore)
		if cc := c.(*ast.CommClause); cc.Comm != nil {
			sig := call("vsched", "Signal")
			ci.gen[sig] = true
			pro := []ast.Stmt{sig}
			// happens-before: the receive that succeeded acquires what the sender / closer released
			switch cm := cc.Comm.(type) {
			case *ast.ExprStmt:
				if u, ok := cm.X.(*ast.UnaryExpr); ok && u.Op == token.ARROW {
					pro = append(pro, ci.chanAcquire(u.X, x))
				}
			case *ast.AssignStmt:
				if u, ok := cm.Rhs[0].(*ast.UnaryExpr); ok && u.Op == token.ARROW {
					pro = append(pro, ci.chanAcquire(u.X, x))
				}
			case *ast.SendStmt:
				hasSend = true
				// the send succeeded: the receive that made room for it happens before what follows (semaphore idiom)
				var acq ast.Stmt
				switch cm.Chan.(type) {
				case *ast.Ident, *ast.SelectorExpr:
					if ci.baseOK(cm.Chan, false, x) {
						acq = call("vsched", "HBChanSent", cloneExpr(cm.Chan))
					}
				}
				if acq == nil {
					acq = call("vsched", "HBAcquireAll")
				}
				ci.gen[acq] = true
				pro = append(pro, acq)
			}
			cc.Body = append(pro, cc.Body...)
		}
	}
	if hasSend {
		// the channel of a send case is not named at this point: release to every later receive
		out = append(out, call("vsched", "HBReleaseGlobal"))
	}
	return out, ci.selectStmt(x)
}

func hasDefault(s *ast.SelectStmt) bool {
	for _, c := range s.Body.List {
		if c.(*ast.CommClause).Comm == nil {
			return true
		}
	}
	return false
}

func (ci *cinst) goStmt(g *ast.GoStmt) ast.Stmt {
	ci.n++
	c := g.Call
	var lhs, rhs []ast.Expr
	fun := c.Fun
	if _, isLit := fun.(*ast.FuncLit); !isLit {
		v := ast.NewIdent(fmt.Sprintf("_vf%d", ci.n))
		lhs, rhs = append(lhs, v), append(rhs, fun)
		fun = v
	}
	var args []ast.Expr
	for i, a := range c.Args {
		v := ast.NewIdent(fmt.Sprintf("_va%d_%d", ci.n, i))
		lhs, rhs = append(lhs, v), append(rhs, a)
		args = append(args, v)
	}
	if c.Ellipsis.IsValid() {
		ci.fail(g.Pos(), "go statement with variadic spread: not supported")
	}
	body := &ast.BlockStmt{List: []ast.Stmt{&ast.ExprStmt{X: &ast.CallExpr{Fun: fun, Args: args}}}}
	spawn := call("vsched", "Go", &ast.FuncLit{Type: &ast.FuncType{Params: &ast.FieldList{}}, Body: body})
	if len(lhs) == 0 {
		return spawn
	}
	return &ast.BlockStmt{List: []ast.Stmt{&ast.AssignStmt{Lhs: lhs, Tok: token.DEFINE, Rhs: rhs}, spawn}}
}

// prioritise: when several communications of a select are ready Go picks one pseudo-randomly - a source of
// nondeterminism the explorer does not own (replays would diverge). The select (which has a default clause by now) is
// nested so that the first ready case IN SOURCE ORDER is taken. This restricts the behaviours explored (DESIGN §16).
func (ci *cinst) prioritise(s *ast.SelectStmt) {
	var comms []*ast.CommClause
	var def *ast.CommClause
	for _, c := range s.Body.List {
		cc := c.(*ast.CommClause)
		if cc.Comm == nil {
			def = cc
		} else {
			comms = append(comms, cc)
		}
	}
	if len(comms) < 2 || def == nil {
		return
	}
	inner := &ast.SelectStmt{Body: &ast.BlockStmt{List: []ast.Stmt{comms[len(comms)-1], def}}}
	ci.gen[inner] = true
	for i := len(comms) - 2; i >= 1; i-- {
		inner = &ast.SelectStmt{Body: &ast.BlockStmt{List: []ast.Stmt{comms[i], &ast.CommClause{Body: []ast.Stmt{inner}}}}}
		ci.gen[inner] = true
	}
	s.Body.List = []ast.Stmt{comms[0], &ast.CommClause{Body: []ast.Stmt{inner}}}
}

func (ci *cinst) selectStmt(s *ast.SelectStmt) ast.Stmt {
	out := ci.selectStmt0(s)
	ci.prioritise(s)
	return out
}

func (ci *cinst) selectStmt0(s *ast.SelectStmt) ast.Stmt {
	if hasDefault(s) {
		return s
	}
	// a blocking select becomes a polling one that is retried after every external event:
	//
	//	_vlN: select { <cases>; default: vsched.WaitExternal(); goto _vlN }
	//
	// No loop is wrapped around it, so break / continue / labels inside the cases mean what they meant, and a select all of
	// whose cases end in a terminating statement stays one (the added clause ends in a goto).
	ci.n++
	lbl := fmt.Sprintf("_vl%d", ci.n)
	ci.gen[s] = true
	wp := ci.waitPkg
	if wp == "" {
		wp = "vsched"
	}
	s.Body.List = append(s.Body.List, &ast.CommClause{Body: []ast.Stmt{call(wp, "WaitExternal"), &ast.BranchStmt{Tok: token.GOTO, Label: ast.NewIdent(lbl)}}})
	ls := &ast.LabeledStmt{Label: ast.NewIdent(lbl), Stmt: s}
	ci.gen[ls] = true
	return ls
}

// terminating: a conservative version of the specification's "terminating statement" (return, goto, panic call, and
// blocks / if-else chains ending in those).
func terminating(st ast.Stmt) bool {
	switch x := st.(type) {
	case *ast.ReturnStmt:
		return true
	case *ast.BranchStmt:
		return x.Tok == token.GOTO
	case *ast.ExprStmt:
		if c, ok := x.X.(*ast.CallExpr); ok {
			if id, ok := c.Fun.(*ast.Ident); ok && id.Name == "panic" {
				return true
			}
		}
	case *ast.BlockStmt:
		return len(x.List) > 0 && terminating(x.List[len(x.List)-1])
	case *ast.IfStmt:
		return x.Else != nil && terminating(x.Body) && terminating(x.Else)
	}
	return false
}

// verify refuses whatever blocking or spawning construct is left after the rewrite.
func (ci *cinst) verify(f *ast.File) error {
	var err error
	comm := map[ast.Node]bool{}
	ast.Inspect(f, func(n ast.Node) bool {
		if err != nil {
			return false
		}
		switch x := n.(type) {
		case *ast.CommClause:
			if x.Comm != nil {
				comm[x.Comm] = true
				switch c := x.Comm.(type) {
				case *ast.ExprStmt:
					comm[c.X] = true
				case *ast.AssignStmt:
					for _, r := range c.Rhs {
						comm[r] = true
					}
				}
			}
		case *ast.GoStmt:
			err = fmt.Errorf("%s: go statement outside a statement list", ci.fset.Position(x.Pos()))
		case *ast.SelectStmt:
			if !hasDefault(x) {
				err = fmt.Errorf("%s: blocking select left after rewrite", ci.fset.Position(x.Pos()))
			}
		case *ast.UnaryExpr:
			if x.Op == token.ARROW && !comm[x] {
				err = fmt.Errorf("%s: channel receive inside an expression: not supported", ci.fset.Position(x.Pos()))
			}
		case *ast.SendStmt:
			if !comm[x] {
				err = fmt.Errorf("%s: send statement outside select: not supported", ci.fset.Position(x.Pos()))
			}
		}
		return true
	})
	return err
}

// rewriteRecvInExpr turns a channel receive that is an operand of a larger expression (append(x, <-ch...), f(<-ch),
// a + <-ch, return <-ch) into vsched.Recv(ch). Receives that are the communication of a select case, and the statement
// forms handled by list(), are left alone.
func rewriteRecvInExpr(f *ast.File, pkg string) (changed bool) {
	comm := map[ast.Node]bool{}
	ast.Inspect(f, func(n ast.Node) bool {
		if cc, ok := n.(*ast.CommClause); ok && cc.Comm != nil {
			switch c := cc.Comm.(type) {
			case *ast.ExprStmt:
				comm[c.X] = true
			case *ast.AssignStmt:
				for _, r := range c.Rhs {
					comm[r] = true
				}
			}
		}
		return true
	})
	var fix func(e *ast.Expr)
	fix = func(e *ast.Expr) {
		if e == nil || *e == nil {
			return
		}
		if u, ok := (*e).(*ast.UnaryExpr); ok && u.Op == token.ARROW && !comm[u] {
			fix(&u.X)
			*e = &ast.CallExpr{Fun: &ast.SelectorExpr{X: ast.NewIdent(pkg), Sel: ast.NewIdent("Recv")}, Args: []ast.Expr{u.X}}
			changed = true
			return
		}
		switch x := (*e).(type) {
		case *ast.CallExpr:
			fix(&x.Fun)
			for i := range x.Args {
				fix(&x.Args[i])
			}
		case *ast.BinaryExpr:
			fix(&x.X)
			fix(&x.Y)
		case *ast.UnaryExpr:
			if !comm[x] {
				fix(&x.X)
			}
		case *ast.ParenExpr:
			fix(&x.X)
		case *ast.IndexExpr:
			fix(&x.X)
			fix(&x.Index)
		case *ast.SliceExpr:
			fix(&x.X)
			fix(&x.Low)
			fix(&x.High)
			fix(&x.Max)
		case *ast.SelectorExpr:
			fix(&x.X)
		case *ast.StarExpr:
			fix(&x.X)
		case *ast.TypeAssertExpr:
			fix(&x.X)
		case *ast.KeyValueExpr:
			fix(&x.Value)
		case *ast.CompositeLit:
			for i := range x.Elts {
				fix(&x.Elts[i])
			}
		}
	}
	ast.Inspect(f, func(n ast.Node) bool {
		switch x := n.(type) {
		case *ast.AssignStmt:
			for i := range x.Rhs {
				if u, ok := x.Rhs[i].(*ast.UnaryExpr); ok && u.Op == token.ARROW {
					continue // v := <-ch / v, ok := <-ch: statement forms (list) or select communications
				}
				fix(&x.Rhs[i])
			}
			for i := range x.Lhs {
				fix(&x.Lhs[i])
			}
		case *ast.ExprStmt:
			if u, ok := x.X.(*ast.UnaryExpr); ok && u.Op == token.ARROW {
				return true
			}
			fix(&x.X)
		case *ast.ReturnStmt:
			for i := range x.Results {
				fix(&x.Results[i])
			}
		case *ast.IfStmt:
			fix(&x.Cond)
		case *ast.ForStmt:
			fix(&x.Cond)
		case *ast.SwitchStmt:
			fix(&x.Tag)
		case *ast.SendStmt:
			fix(&x.Value)
		case *ast.IncDecStmt:
			fix(&x.X)
		case *ast.DeferStmt:
			for i := range x.Call.Args {
				fix(&x.Call.Args[i])
			}
		case *ast.GoStmt:
			for i := range x.Call.Args {
				fix(&x.Call.Args[i])
			}
		case *ast.ValueSpec:
			for i := range x.Values {
				fix(&x.Values[i])
			}
		case *ast.CaseClause:
			for i := range x.List {
				fix(&x.List[i])
			}
		}
		return true
	})
	return changed
}

// rewriteRecvInit handles receives in the init / post statements of if, for and switch (`if v, ok := <-ch; ok {`), which
// are not statements of a block: pkg.Recv / pkg.Recv2 like the statement forms. Reports whether anything was rewritten.
func rewriteRecvInit(f *ast.File, pkg string) (changed bool) {
	one := func(st ast.Stmt) {
		var e *ast.Expr
		fn := "Recv"
		switch x := st.(type) {
		case *ast.ExprStmt:
			e = &x.X
		case *ast.AssignStmt:
			if len(x.Rhs) == 1 {
				e = &x.Rhs[0]
				if len(x.Lhs) == 2 {
					fn = "Recv2"
				}
			}
		}
		if e == nil {
			return
		}
		if u, ok := (*e).(*ast.UnaryExpr); ok && u.Op == token.ARROW {
			*e = &ast.CallExpr{Fun: &ast.SelectorExpr{X: ast.NewIdent(pkg), Sel: ast.NewIdent(fn)}, Args: []ast.Expr{u.X}}
			changed = true
		}
	}
	ast.Inspect(f, func(n ast.Node) bool {
		switch x := n.(type) {
		case *ast.IfStmt:
			one(x.Init)
		case *ast.ForStmt:
			one(x.Init)
			one(x.Post)
		case *ast.SwitchStmt:
			one(x.Init)
		case *ast.TypeSwitchStmt:
			one(x.Init)
		}
		return true
	})
	return changed
}
