package main

import (
	"fmt"
	"go/ast"
	"go/token"
)

func instrumentCImpl(fset *token.FileSet, f *ast.File, rel string) error {
	return fmt.Errorf("mode C not implemented yet")
}
