// xform generates, from the current working tree of /repo, the instrumented copies of the client and server sources
// and the overlay.json that `go build -overlay` uses to inject them together with the shim packages.
//
//	mode B: client.go, serialclient.go, server/server.go with package time replaced by the virtual clock
//	mode C: additionally sync / sync/atomic replaced by scheduler-aware shims, `go` statements routed through the
//	        scheduler, blocking selects / channel receives made visible, access points before statements that touch
//	        mutable shared fields, deterministic map iteration
//
// Anything the transformer does not understand makes it fail loudly (the check then ends INCONCLUSIVE).
package main

import (
	"bytes"
	"encoding/json"
	"flag"
	"fmt"
	"go/ast"
	"go/format"
	"go/parser"
	"go/token"
	"os"
	"path/filepath"
	"strconv"
	"strings"
)

const shimBase = "github.com/aldas/go-modbus-client/verifshim/"

func die(f string, a ...any) {
	fmt.Fprintf(os.Stderr, "xform: "+f+"\n", a...)
	os.Exit(1)
}

func main() {
	mode := flag.String("mode", "B", "B or C")
	repo := flag.String("repo", "/repo", "repository root")
	out := flag.String("out", "", "output directory")
	flag.Parse()
	if *out == "" {
		die("-out required")
	}
	os.MkdirAll(*out, 0o755)
	replace := map[string]string{}
	// every non-test source file of the root package and of package server (package packet is pure computation)
	var files []string
	for _, dir := range []string{".", "server"} {
		ents, err := os.ReadDir(filepath.Join(*repo, dir))
		if err != nil {
			die("%v", err)
		}
		for _, e := range ents {
			n := e.Name()
			if e.IsDir() || !strings.HasSuffix(n, ".go") || strings.HasSuffix(n, "_test.go") {
				continue
			}
			files = append(files, filepath.Join(dir, n))
		}
	}
	for _, rel := range files {
		src := filepath.Join(*repo, rel)
		code, err := os.ReadFile(src)
		if err != nil {
			die("%v", err)
		}
		gen, err := transform(rel, code, *mode)
		if err != nil {
			die("%s: %v", rel, err)
		}
		dst := filepath.Join(*out, strings.ReplaceAll(rel, "/", "_"))
		if err := os.WriteFile(dst, gen, 0o644); err != nil {
			die("%v", err)
		}
		replace[src] = dst
	}
	shims := []string{"vtime"}
	if *mode == "C" {
		shims = append(shims, "vsync", "vatomic", "vsched")
	}
	for _, s := range shims {
		matches, _ := filepath.Glob(filepath.Join("/verif/engine/shim", s, "*.go"))
		if len(matches) == 0 {
			die("shim %s has no sources", s)
		}
		for _, m := range matches {
			replace[filepath.Join(*repo, "verifshim", s, filepath.Base(m))] = m
		}
	}
	b, _ := json.MarshalIndent(map[string]any{"Replace": replace}, "", " ")
	if err := os.WriteFile(filepath.Join(*out, "overlay.json"), b, 0o644); err != nil {
		die("%v", err)
	}
}

func transform(rel string, code []byte, mode string) ([]byte, error) {
	fset := token.NewFileSet()
	// comments are dropped: go/printer misplaces them around inserted statements
	f, err := parser.ParseFile(fset, rel, code, 0)
	if err != nil {
		return nil, err
	}
	rewrites := map[string]string{"time": "vtime"}
	if mode == "C" {
		rewrites["sync"] = "vsync"
		rewrites["sync/atomic"] = "vatomic"
	}
	used := map[string]bool{}
	for _, imp := range f.Imports {
		p, _ := strconv.Unquote(imp.Path.Value)
		if shim, ok := rewrites[p]; ok {
			if imp.Name != nil && imp.Name.Name != filepath.Base(p) {
				return nil, fmt.Errorf("import %q is aliased as %s: not supported", p, imp.Name.Name)
			}
			imp.Path.Value = strconv.Quote(shimBase + shim)
			imp.Name = ast.NewIdent(filepath.Base(p)) // keep the package name the code uses (time, sync, atomic)
			used[p] = true
		}
	}
	// context.WithTimeout / WithDeadline (and the Cause variants) arm real timers: route them to the virtual clock
	ctxName := ""
	for _, imp := range f.Imports {
		if p, _ := strconv.Unquote(imp.Path.Value); p == "context" {
			ctxName = "context"
			if imp.Name != nil {
				ctxName = imp.Name.Name
			}
		}
	}
	if ctxName != "" {
		usesVctx := false
		ast.Inspect(f, func(n ast.Node) bool {
			se, ok := n.(*ast.SelectorExpr)
			if !ok {
				return true
			}
			id, ok := se.X.(*ast.Ident)
			if !ok || id.Name != ctxName || id.Obj != nil {
				return true
			}
			switch se.Sel.Name {
			case "WithTimeout", "WithDeadline", "WithTimeoutCause", "WithDeadlineCause":
				se.X = ast.NewIdent("vtimectx")
				usesVctx = true
			}
			return true
		})
		if usesVctx {
			addImport(f, shimBase+"vtime", "vtimectx")
		}
	}
	if mode == "C" {
		if err := instrumentC(fset, f, rel); err != nil {
			return nil, err
		}
	} else {
		// mode B: when several communications of a polling select (one with a default clause) are ready at the same
		// virtual instant, Go picks one pseudo-randomly - nondeterminism nobody owns. As in mode C the first ready case in
		// source order is taken (met with seed C08-r6-1: a context deadline and the read timeout became ready together).
		ci := &cinst{fset: fset, rel: rel, gen: map[ast.Stmt]bool{}}
		ci.waitPkg = "vtimeb"
		// only the single-threaded client executions: the server's goroutines wait for each other, not for the clock
		if !strings.HasPrefix(filepath.ToSlash(rel), "server/") && ci.blockingB(f) {
			addImport(f, shimBase+"vtime", "vtimeb")
		}
		ast.Inspect(f, func(n ast.Node) bool {
			if sel, ok := n.(*ast.SelectStmt); ok && hasDefault(sel) && !ci.gen[sel] {
				ci.prioritise(sel)
			}
			return true
		})
	}
	var buf bytes.Buffer
	if err := format.Node(&buf, fset, f); err != nil {
		return nil, err
	}
	hdr := fmt.Sprintf("// Code generated by /verif/engine/xform (mode %s) from %s; DO NOT EDIT.\n\n", mode, rel)
	return append([]byte(hdr), buf.Bytes()...), nil
}

// blockingB rewrites the blocking waits of a mode B file (statement-level receives and selects without a default clause)
// so that they move the virtual clock instead of waiting for somebody else to do it (see shim/vtime: Recv, WaitExternal).
// Met with the behaviour-preserving refactoring benign/client-6 (`<-timer.C` instead of time.Sleep): the check hung.
// Reports whether anything was rewritten. Code without such waits - the unchanged tree - is generated as before.
func (ci *cinst) blockingB(f *ast.File) bool {
	changed := false
	recv := func(e ast.Expr, fn string) ast.Expr {
		if u, ok := e.(*ast.UnaryExpr); ok && u.Op == token.ARROW {
			changed = true
			return &ast.CallExpr{Fun: &ast.SelectorExpr{X: ast.NewIdent("vtimeb"), Sel: ast.NewIdent(fn)}, Args: []ast.Expr{u.X}}
		}
		return e
	}
	list := func(in []ast.Stmt) []ast.Stmt {
		for i, st := range in {
			switch x := st.(type) {
			case *ast.ExprStmt:
				x.X = recv(x.X, "Recv")
			case *ast.AssignStmt:
				if len(x.Rhs) == 1 {
					fn := "Recv"
					if len(x.Lhs) == 2 {
						fn = "Recv2"
					}
					x.Rhs[0] = recv(x.Rhs[0], fn)
				}
			case *ast.SelectStmt:
				if !hasDefault(x) && !ci.gen[x] {
					changed = true
					in[i] = ci.selectStmt0(x)
				}
			case *ast.LabeledStmt:
				if sel, ok := x.Stmt.(*ast.SelectStmt); ok && !hasDefault(sel) && !ci.gen[sel] {
					changed = true
					ls := ci.selectStmt0(sel).(*ast.LabeledStmt) // _vlN: L: select {...}
					x.Stmt = ls.Stmt
					ls.Stmt = x
					in[i] = ls
				}
			}
		}
		return in
	}
	one := func(st ast.Stmt) { // init / post statements of if, for, switch
		if st != nil {
			list([]ast.Stmt{st})
		}
	}
	ast.Inspect(f, func(n ast.Node) bool {
		switch x := n.(type) {
		case *ast.BlockStmt:
			x.List = list(x.List)
		case *ast.CaseClause:
			x.Body = list(x.Body)
		case *ast.CommClause:
			x.Body = list(x.Body)
		case *ast.IfStmt:
			one(x.Init)
		case *ast.ForStmt:
			one(x.Init)
			one(x.Post)
		case *ast.SwitchStmt:
			one(x.Init)
		case *ast.TypeSwitchStmt:
			one(x.Init)
		}
		return true
	})
	// receives that are operands of larger expressions (f(<-ch), return <-ch, a + <-ch)
	if rewriteRecvInExpr(f, "vtimeb") {
		changed = true
	}
	return changed
}
