// Package racepass is the auxiliary, free-running race-detector pass of C14 and C17 (DESIGN §2.3/§8): the same kind of
// thread bodies as the scheduler harnesses, but on the UNTRANSFORMED library with real goroutines, real time and
// `go test -race`. A cooperative scheduler's hand-offs are happens-before edges and would blind the detector; here
// nothing is controlled, so this pass is sampling and can only ever add findings, never decide the property.
package racepass

import (
	"context"
	"errors"
	"io"
	"math/rand"
	"net"
	"os"
	"strconv"
	"sync"
	"sync/atomic"
	"testing"
	"time"

	modbus "github.com/aldas/go-modbus-client"
	"github.com/aldas/go-modbus-client/packet"
	"github.com/aldas/go-modbus-client/server"
)

func seed() int64 {
	s, _ := strconv.ParseInt(os.Getenv("VERIF_SEED"), 10, 64)
	return s
}

// devConn answers FC3 requests (TCP or RTU framing) in arrival order. Its own state is guarded by a mutex: that adds
// happens-before edges between transport calls, but none between the client's own fields.
type devConn struct {
	mu     sync.Mutex
	rtu    bool
	buf    []byte
	closed bool
	rdl    time.Time
}

func (c *devConn) Write(p []byte) (int, error) {
	c.mu.Lock()
	defer c.mu.Unlock()
	if c.closed {
		return 0, net.ErrClosed
	}
	var reply []byte
	if c.rtu {
		if len(p) < 8 {
			return len(p), nil
		}
		q := int(p[4])<<8 | int(p[5])
		reply = append([]byte{p[0], 3, byte(2 * q)}, make([]byte, 2*q)...)
		crc := packet.CRC16(reply)
		reply = append(reply, byte(crc), byte(crc>>8))
	} else {
		if len(p) < 12 {
			return len(p), nil
		}
		q := int(p[10])<<8 | int(p[11])
		reply = append([]byte{p[0], p[1], 0, 0, 0, byte(3 + 2*q), p[6], 3, byte(2 * q)}, make([]byte, 2*q)...)
	}
	c.buf = append(c.buf, reply...)
	return len(p), nil
}

func (c *devConn) Read(p []byte) (int, error) {
	for i := 0; i < 50; i++ {
		c.mu.Lock()
		if c.closed {
			c.mu.Unlock()
			return 0, net.ErrClosed
		}
		if len(c.buf) > 0 {
			n := (len(c.buf) + 1) / 2
			if n > len(p) {
				n = len(p)
			}
			copy(p, c.buf[:n])
			c.buf = c.buf[n:]
			c.mu.Unlock()
			return n, nil
		}
		dl := c.rdl
		c.mu.Unlock()
		if !dl.IsZero() && time.Now().After(dl) {
			return 0, os.ErrDeadlineExceeded
		}
		time.Sleep(20 * time.Microsecond)
	}
	return 0, os.ErrDeadlineExceeded
}

func (c *devConn) Close() error {
	c.mu.Lock()
	defer c.mu.Unlock()
	c.closed = true
	return nil
}
func (c *devConn) Flush() error                       { return nil }
func (c *devConn) LocalAddr() net.Addr                { return &net.TCPAddr{} }
func (c *devConn) RemoteAddr() net.Addr               { return &net.TCPAddr{} }
func (c *devConn) SetDeadline(t time.Time) error      { return c.SetReadDeadline(t) }
func (c *devConn) SetWriteDeadline(t time.Time) error { return nil }
func (c *devConn) SetReadDeadline(t time.Time) error {
	c.mu.Lock()
	c.rdl = t
	c.mu.Unlock()
	return nil
}

type nopHooks struct{ n atomic.Int64 }

func (h *nopHooks) BeforeWrite(b []byte)                     { h.n.Add(1) }
func (h *nopHooks) AfterEachRead(b []byte, n int, err error) { h.n.Add(1) }
func (h *nopHooks) BeforeParse(b []byte)                     { h.n.Add(1) }

func TestRaceC14Client(t *testing.T) {
	for _, rtu := range []bool{false, true} {
		conf := modbus.ClientConfig{ReadTimeout: 20 * time.Millisecond, Hooks: &nopHooks{},
			DialContextFunc: func(ctx context.Context, address string) (net.Conn, error) { return &devConn{rtu: rtu}, nil }}
		var c *modbus.Client
		if rtu {
			c = modbus.NewRTUClientWithConfig(conf)
		} else {
			c = modbus.NewTCPClientWithConfig(conf)
		}
		if err := c.Connect(context.Background(), "dev"); err != nil {
			t.Fatal(err)
		}
		var wg sync.WaitGroup
		for g := 0; g < 8; g++ {
			wg.Add(1)
			go func(g int) {
				defer wg.Done()
				for k := 0; k < 150; k++ {
					var req packet.Request
					if rtu {
						req, _ = packet.NewReadHoldingRegistersRequestRTU(uint8(g+1), uint16(k), uint16(1+g))
					} else {
						req, _ = packet.NewReadHoldingRegistersRequestTCP(uint8(g+1), uint16(k), uint16(1+g))
					}
					c.Do(context.Background(), req)
				}
			}(g)
		}
		wg.Add(1)
		go func() {
			defer wg.Done()
			r := rand.New(rand.NewSource(seed()))
			for k := 0; k < 40; k++ {
				time.Sleep(time.Duration(r.Intn(300)) * time.Microsecond)
				if k%3 == 2 {
					c.Close()
				}
				c.Connect(context.Background(), "dev")
			}
		}()
		wg.Wait()
		c.Close()
	}
}

func TestRaceC14Serial(t *testing.T) {
	port := &devConn{rtu: true}
	c := modbus.NewSerialClient(port, modbus.WithSerialReadTimeout(20*time.Millisecond), modbus.WithSerialHooks(&nopHooks{}))
	var wg sync.WaitGroup
	for g := 0; g < 4; g++ {
		wg.Add(1)
		go func(g int) {
			defer wg.Done()
			for k := 0; k < 6; k++ { // every call sleeps 30 ms of real time
				req, _ := packet.NewReadHoldingRegistersRequestRTU(uint8(g+1), uint16(k), uint16(1+g))
				c.Do(context.Background(), req)
			}
		}(g)
	}
	wg.Add(1)
	go func() {
		defer wg.Done()
		time.Sleep(400 * time.Millisecond)
		c.Close()
	}()
	wg.Wait()
}

// ---- server ----

type memListener struct {
	ch     chan net.Conn
	once   sync.Once
	closed chan struct{}
}

func newMemListener() *memListener {
	return &memListener{ch: make(chan net.Conn, 64), closed: make(chan struct{})}
}
func (l *memListener) Accept() (net.Conn, error) {
	select {
	case c := <-l.ch:
		return c, nil
	case <-l.closed:
		return nil, net.ErrClosed
	}
}
func (l *memListener) Close() error   { l.once.Do(func() { close(l.closed) }); return nil }
func (l *memListener) Addr() net.Addr { return &net.TCPAddr{} }
func (l *memListener) dial() (net.Conn, error) {
	a, b := net.Pipe()
	select {
	case l.ch <- b:
		return a, nil
	case <-l.closed:
		return nil, errors.New("refused")
	}
}

type handler struct{ d time.Duration }

func (h handler) Handle(ctx context.Context, req packet.Request) (packet.Response, error) {
	if h.d > 0 {
		time.Sleep(h.d)
	}
	r, ok := req.(*packet.ReadHoldingRegistersRequestTCP)
	if !ok {
		return nil, packet.NewErrorParseTCP(packet.ErrIllegalFunction, "only fc3")
	}
	return packet.ReadHoldingRegistersResponseTCP{
		MBAPHeader:                   packet.MBAPHeader{TransactionID: r.TransactionID, ProtocolID: 0},
		ReadHoldingRegistersResponse: packet.ReadHoldingRegistersResponse{UnitID: r.UnitID, RegisterByteLen: 2, Data: []byte{0, 1}},
	}, nil
}

func TestRaceC17Server(t *testing.T) {
	r := rand.New(rand.NewSource(seed()))
	for cb := 0; cb < 16; cb++ {
		s := &server.Server{}
		var accepted, closed atomic.Int64
		served := make(chan struct{})
		if cb&1 != 0 {
			s.OnServeFunc = func(net.Addr) { close(served) }
		}
		if cb&2 != 0 {
			s.OnErrorFunc = func(error) {}
		}
		if cb&4 != 0 {
			s.OnAcceptConnFunc = func(ctx context.Context, a net.Addr, n uint64) error {
				if accepted.Add(1)%5 == 0 {
					return errors.New("rejected")
				}
				return nil
			}
		}
		if cb&8 != 0 {
			s.OnCloseConnFunc = func(context.Context, net.Addr, bool) { closed.Add(1) }
		}
		l := newMemListener()
		ctx, cancel := context.WithCancel(context.Background())
		done := make(chan error, 1)
		go func() { done <- s.Serve(ctx, l, handler{time.Duration(cb%3) * time.Millisecond}) }()
		var wg sync.WaitGroup
		think := make([]time.Duration, 8)
		for i := range think {
			think[i] = time.Duration(r.Intn(2000)) * time.Microsecond
		}
		for i := 0; i < 8; i++ {
			wg.Add(1)
			go func(i int) {
				defer wg.Done()
				time.Sleep(think[i])
				c, err := l.dial()
				if err != nil {
					return
				}
				defer c.Close()
				for k := 0; k < 3; k++ {
					req, _ := packet.NewReadHoldingRegistersRequestTCP(1, uint16(k), 1)
					c.SetDeadline(time.Now().Add(100 * time.Millisecond))
					if _, err := c.Write(req.Bytes()); err != nil {
						return
					}
					buf := make([]byte, 32)
					if _, err := io.ReadAtLeast(c, buf, 11); err != nil {
						return
					}
					time.Sleep(think[i] / 4)
				}
			}(i)
		}
		if cb%4 < 2 { // otherwise: act at once, racing with the start of Serve
			time.Sleep(time.Duration(1+r.Intn(4)) * time.Millisecond)
		}
		if cb%2 == 0 {
			sctx, scancel := context.WithTimeout(context.Background(), 300*time.Millisecond)
			s.Shutdown(sctx)
			scancel()
		} else {
			if cb&1 != 0 { // Addr is only meaningful once the server has said that it is serving
				<-served
				s.Addr()
			}
			cancel()
		}
		wg.Wait()
		select {
		case <-done:
		case <-time.After(2 * time.Second):
			t.Errorf("callbacks %04b: Serve did not return", cb)
		}
		cancel()
	}
}
