// Package srvx runs one scenario against the real server.Server (transformed sources, in-memory network) under the
// cooperative scheduler and evaluates the lifecycle / reply oracles of C15 (level 2), C16 (process level) and C17.
package srvx

import (
	"context"
	"encoding/hex"
	"errors"
	"fmt"
	"io"
	"log"
	"net"
	"os"
	"strconv"
	"strings"
	"time"

	"github.com/aldas/go-modbus-client/server"
	"github.com/aldas/go-modbus-client/verifshim/vsched"
	"github.com/aldas/go-modbus-client/verifshim/vtime"
	"verif/memnet"
	"verif/serverx"
	"verif/spec"
)

func init() { log.SetOutput(io.Discard) }

// Callback bits.
const (
	CbServe  = 1
	CbError  = 2
	CbAccept = 4
	CbClose  = 8
)

// Scenario is the closed system: configuration, client scripts, controller.
type Scenario struct {
	Name        string     `json:"name"`
	Callbacks   int        `json:"callbacks"`    // bit set of Cb*
	RejectNth   int        `json:"reject_nth"`   // OnAcceptConnFunc rejects the n-th accepted connection (0 = none)
	ReadTimeout string     `json:"read_timeout"` // "long" (1h virtual) or "default" (library default 5ms)
	Handler     string     `json:"handler"`      // "instant", "sleep10", "sleep120", "panic", "generic-error", "typed-error", "nil-nil"
	Clients     [][]string `json:"clients"`      // per client: ops dial, send, send2, sendbad, recv, close, quiesce, sleep:<ms>, wait-ctl
	Control     string     `json:"control"`      // "none", "shutdown", "cancel", "shutdown-cancelled", "shutdown-on-serve", "shutdown-before-serve", "shutdown+cancel"
	ControlAt   int        `json:"control_at"`   // controller acts after this many completed client ops (all clients together)
	// ControlAtHandled, when > 0, additionally makes the controller wait until that many handler invocations have
	// started (so that "n requests in flight when Shutdown starts" is the default schedule, not a deviation)
	ControlAtHandled int      `json:"control_at_handled,omitempty"`
	Frames           []string `json:"frames"`        // optional: catalogue frame name per client (default fc3)
	PanicOnConn      int      `json:"panic_on_conn"` // handler panics only on this connection id (0 = per Handler mode)
	// Expect, when set for client i, lists (hex) exactly the reply frames that client must have received by the end
	// (used with the raw ops write:<hex>, drain, check:<n>, recvall:<k>).
	Expect [][]string `json:"expect,omitempty"`
	// HandlerByConn overrides Handler per connection id: "panic", "nil-nil", "generic-error", "typed-error"
	HandlerByConn map[int]string `json:"handler_by_conn,omitempty"`
}

// V is one oracle failure.
type V struct {
	Kind  string
	Msg   string
	Attrs map[string]any
}

// Result of one execution.
type Result struct {
	Out      vsched.Outcome
	Races    []V // data races found by the scheduler's happens-before detector (valid for pruned executions too)
	V        []V
	Summary  string // canonical outcome string (for distinct-outcome accounting)
	Handled  int
	Replies  int
	Accepted int
}

type connInfo struct {
	id          int
	rejected    bool
	accepted    bool
	closeCbs    int
	handlerSt   int // handler invocations started
	panicked    bool
	settledDead bool // seen closed by the server at a quiescence point
}

type clientState struct {
	conn     *memnet.Conn
	dialErr  error
	sent     [][]byte
	rawSent  []byte
	got      [][]byte // complete reply frames
	partial  []byte
	eof      bool
	rerr     string
	closed   bool
	done     bool
	timedOut bool
}

type run struct {
	sc   Scenario
	net  *memnet.Net
	srv  *server.Server
	h    *serverx.Handler
	res  *Result
	conn map[int]*connInfo // by connection id

	opsDone          int
	serveRet         bool
	serveErr         error
	serveRetNs       int64
	cancelNs         int64
	cancelled        bool
	shutCalled       bool
	shutRet          bool
	shutErr          error
	shutRetNs        int64
	ctlDone          bool
	secondShutRet    bool
	secondShutErr    error
	served           bool // OnServeFunc fired
	acceptSeq        int
	onErrors         []string
	clients          []*clientState
	serveCancel      context.CancelFunc
	startedAtShutRet map[int]int
}

func (r *run) fail(kind, msg string, attrs map[string]any) {
	if vsched.Aborted() {
		return
	}
	if attrs == nil {
		attrs = map[string]any{}
	}
	r.res.V = append(r.res.V, V{Kind: kind, Msg: msg, Attrs: attrs})
}

func connID(a net.Addr) int {
	s := a.String()
	if i := strings.LastIndex(s, "-"); i >= 0 {
		n, _ := strconv.Atoi(s[i+1:])
		return n
	}
	return 0
}

func (r *run) info(id int) *connInfo {
	ci := r.conn[id]
	if ci == nil {
		ci = &connInfo{id: id}
		r.conn[id] = ci
	}
	return ci
}

// bounds returns how many earlier accepted, non-rejected connections are certainly still counted as live by a
// correct server (lo) and how many may still be counted (hi). A connection is certainly live while neither side has
// closed it, its handler has not panicked and no shutdown/cancel is under way; it is certainly gone once it was seen
// closed at a quiescence point (its teardown cannot still be running). Anything in between may or may not be counted:
// the server reads its counter before it calls the callback, so the number may be stale by the connections that ended
// in between.
func (r *run) bounds() (lo, hi int) {
	for _, sc := range r.net.Conns {
		ci := r.conn[sc.ID()]
		if ci == nil || !ci.accepted || ci.rejected {
			continue
		}
		switch {
		case !sc.IsClosed() && !sc.PeerClosed() && !r.shutCalled && !r.cancelled && !ci.panicked:
			lo++
			hi++
		case ci.settledDead:
		default:
			hi++
		}
	}
	return
}

func (r *run) settle() {
	for _, sc := range r.net.Conns {
		if ci := r.conn[sc.ID()]; ci != nil && sc.IsClosed() {
			ci.settledDead = true
		}
	}
}

func frameFor(sc Scenario, client, k int) serverx.Frame {
	name := "fc3"
	if client < len(sc.Frames) && sc.Frames[client] != "" {
		name = sc.Frames[client]
	}
	cat := serverx.Catalogue(uint16(0x1000*(client+1) + 0x10*k))
	for _, f := range cat {
		if f.Name == name {
			return f
		}
	}
	panic("unknown frame " + name)
}

// Run executes the scenario once under the given scheduler configuration.
func Run(sc Scenario, cfg vsched.Config) *Result {
	r := &run{sc: sc, res: &Result{}, conn: map[int]*connInfo{}}
	cfg.HB = true
	r.res.Out = vsched.Run(cfg, r.main)
	if r.res.Out.Hung {
		return r.res
	}
	r.final()
	// data races are facts about the executed prefix: they stand even if the execution was cut short (Races is kept apart
	// from V because a pruned execution's V must not be judged)
	for _, rc := range r.res.Out.Races {
		r.res.Races = append(r.res.Races, V{Kind: "data-race", Msg: "unordered conflicting accesses (happens-before over this schedule): " + rc.String(), Attrs: map[string]any{"race": rc.Key()}})
	}
	return r.res
}

func (r *run) main() {
	sc := r.sc
	r.net = memnet.New()
	r.h = &serverx.Handler{Dev: serverx.NewDevice(), Mode: "device"}
	switch sc.Handler {
	case "panic", "generic-error", "typed-error", "nil-nil":
		r.h.Mode = sc.Handler
		r.h.Code = 4
	}
	r.srv = &server.Server{}
	if sc.ReadTimeout != "default" {
		r.srv.ReadTimeout = time.Hour
	}
	if sc.Callbacks&CbServe != 0 {
		r.srv.OnServeFunc = func(a net.Addr) {
			r.served = true
			vsched.Signal()
			vsched.Point("cb.serve")
		}
	}
	if sc.Callbacks&CbError != 0 {
		r.srv.OnErrorFunc = func(err error) {
			r.onErrors = append(r.onErrors, err.Error())
			vsched.Point("cb.error")
		}
	}
	if sc.Callbacks&CbAccept != 0 {
		r.srv.OnAcceptConnFunc = func(ctx context.Context, remote net.Addr, count uint64) error {
			if vsched.Aborted() {
				return nil
			}
			vsched.Point("cb.accept")
			r.acceptSeq++
			id := connID(remote)
			lo, hi := r.bounds()
			lo, hi = lo+1, hi+1
			if int(count) < lo || int(count) > hi {
				r.fail("accept-count-wrong", fmt.Sprintf("OnAcceptConnFunc for connection %d was told %d live connections; the true number is between %d and %d", id, count, lo, hi),
					map[string]any{"exact": lo == hi})
			}
			ci := r.info(id)
			ci.accepted = true
			if sc.RejectNth == r.acceptSeq {
				ci.rejected = true
				return errors.New("rejected by harness")
			}
			return nil
		}
	}
	if sc.Callbacks&CbClose != 0 {
		r.srv.OnCloseConnFunc = func(ctx context.Context, remote net.Addr, isShutdown bool) {
			if vsched.Aborted() {
				return
			}
			vsched.Point("cb.close")
			r.info(connID(remote)).closeCbs++
		}
	}
	r.h.HookCtx = func(ctx context.Context) {
		if vsched.Aborted() {
			return
		}
		id := 0
		if a, ok := ctx.Value(server.ContextRemoteAddr{}).(net.Addr); ok {
			id = connID(a)
		}
		ci := r.info(id)
		ci.handlerSt++
		r.res.Handled++
		vsched.Signal()
		vsched.Point("handler.start")
		switch sc.Handler {
		case "sleep10":
			vtime.Sleep(10 * time.Millisecond)
		case "sleep120":
			vtime.Sleep(120 * time.Millisecond)
		}
		if sc.PanicOnConn != 0 && id == sc.PanicOnConn {
			ci.panicked = true
			panic("handler panic (harness)")
		}
		if m, ok := sc.HandlerByConn[id]; ok {
			switch m {
			case "panic":
				ci.panicked = true
				panic("handler panic (harness)")
			case "panic-error":
				ci.panicked = true
				panic(errors.New("handler panic with an error value (harness)"))
			case "panic-runtime":
				ci.panicked = true
				var m map[string]int
				m["x"] = 1 // runtime error: assignment to entry in nil map
			case "panic-int":
				ci.panicked = true
				panic(42)
			case "nil-nil":
				ci.panicked = true
				r.h.Mode = "nil-nil-once"
			case "generic-error":
				r.h.Mode = "generic-error-once"
			case "typed-error":
				r.h.Mode = "typed-error-once"
				r.h.Code = 4
			}
		}
		if r.h.Mode == "panic" || r.h.Mode == "nil-nil" {
			ci.panicked = true
		}
	}

	serveCtx, cancel := context.WithCancel(context.Background())
	r.serveCancel = cancel
	if sc.Control == "shutdown-before-serve" {
		r.shutdown(context.Background())
	}
	vsched.Spawn("serve", func() {
		err := r.srv.Serve(serveCtx, r.net.L, r.h)
		r.serveRet, r.serveErr, r.serveRetNs = true, err, vsched.NowNs()
	}, true)
	r.clients = make([]*clientState, len(sc.Clients))
	for i := range sc.Clients {
		r.clients[i] = &clientState{}
	}
	for i := range sc.Clients {
		i := i
		vsched.Spawn(fmt.Sprintf("client%d", i), func() { r.client(i) }, false)
	}
	vsched.Spawn("control", r.control, true)

	// wait for scripts and controller, let the system settle, then tear down what is left
	vsched.Block("main.wait", func() bool {
		if !r.ctlDone {
			return false
		}
		for _, c := range r.clients {
			if !c.done {
				return false
			}
		}
		return true
	}, 0)
	vsched.Quiesce()
	r.atQuiescence()
	for _, c := range r.clients {
		if c.conn != nil && !c.closed {
			c.closed = true
			c.conn.Close()
		}
	}
	if !r.cancelled {
		r.cancelled = true
		r.cancelNs = vsched.NowNs()
		cancel()
		vsched.Signal()
	}
}

func (r *run) shutdown(ctx context.Context) {
	r.shutCalled = true
	err := r.srv.Shutdown(ctx)
	if vsched.Aborted() {
		return
	}
	r.shutRet, r.shutErr, r.shutRetNs = true, err, vsched.NowNs()
	if err == nil {
		r.afterGracefulShutdown()
	}
}

func (r *run) control() {
	defer func() { r.ctlDone = true }()
	sc := r.sc
	switch sc.Control {
	case "none", "", "shutdown-before-serve":
		return
	case "shutdown-on-serve":
		vsched.Block("ctl.served", func() bool { return r.served }, 0)
	default:
		vsched.Block("ctl.at", func() bool { return r.opsDone >= sc.ControlAt && r.res.Handled >= sc.ControlAtHandled }, 0)
	}
	vsched.Point("ctl.act")
	switch sc.Control {
	case "shutdown", "shutdown-on-serve":
		// the graceful context is given a generous virtual deadline so that a Shutdown which can never finish
		// (connection stuck "being handled") still returns; nothing is demanded of that case
		gctx, gcancel := context.WithCancel(context.Background())
		vsched.GoNamed("gctx-timer", func() {
			vtime.Sleep(2*time.Second + 3*time.Millisecond)
			gcancel()
			vsched.Signal()
		}, false)
		r.shutdown(gctx)
	case "shutdown-twice", "shutdown-concurrent":
		gctx, gcancel := context.WithCancel(context.Background())
		vsched.GoNamed("gctx-timer", func() {
			vtime.Sleep(2*time.Second + 3*time.Millisecond)
			gcancel()
			vsched.Signal()
		}, false)
		second := func() {
			err := r.srv.Shutdown(gctx)
			if vsched.Aborted() {
				return
			}
			r.secondShutRet, r.secondShutErr = true, err
		}
		if sc.Control == "shutdown-concurrent" {
			vsched.GoNamed("shutdown2", second, true)
			r.shutdown(gctx)
			vsched.Block("ctl.second", func() bool { return r.secondShutRet }, 0)
		} else {
			r.shutdown(gctx)
			second()
		}
	case "shutdown-cancelled":
		gctx, gcancel := context.WithCancel(context.Background())
		gcancel()
		r.shutdown(gctx)
		if r.shutRet && r.shutErr != nil && !errors.Is(r.shutErr, context.Canceled) {
			r.fail("shutdown-wrong-error", fmt.Sprintf("Shutdown with a cancelled context returned %v", r.shutErr), nil)
		}
	case "cancel":
		r.cancelled = true
		r.cancelNs = vsched.NowNs()
		r.serveCancel()
		vsched.Signal()
	case "shutdown+cancel":
		gctx, gcancel := context.WithCancel(context.Background())
		vsched.GoNamed("gctx-timer", func() {
			vtime.Sleep(2*time.Second + 3*time.Millisecond)
			gcancel()
			vsched.Signal()
		}, false)
		r.shutdown(gctx)
		r.cancelled = true
		r.cancelNs = vsched.NowNs()
		r.serveCancel()
		vsched.Signal()
	default:
		panic("unknown control " + sc.Control)
	}
}

func (r *run) client(i int) {
	cs := r.clients[i]
	defer func() { cs.done = true }()
	k := 0
	for _, op := range r.sc.Clients[i] {
		switch {
		case op == "dial":
			c, err := r.net.Dial()
			if err != nil {
				cs.dialErr = err
				if r.shutRet && r.shutErr == nil {
					// expected: port closed
				}
				r.opsDone++
				return
			}
			if r.shutRet && r.shutErr == nil && r.serveRet {
				r.fail("dial-succeeded-after-shutdown", fmt.Sprintf("client %d connected although Shutdown had returned nil and Serve had returned: the port still accepts connections", i), nil)
			}
			cs.conn = c
			if r.sc.Callbacks&CbAccept == 0 {
				ci := r.info(c.ID())
				ci.accepted = true // without the callback every dialled connection that the server accepts counts
			}
		case op == "send" || op == "send2" || op == "sendbad":
			if cs.conn == nil {
				return
			}
			f := frameFor(r.sc, i, k)
			k++
			b := append([]byte(nil), f.Bytes...)
			if op == "sendbad" {
				b = []byte{0xde, 0xad, 0xbe, 0xef, 0, 0, 0, 0, 0, 0, 0, 0}
			}
			cs.sent = append(cs.sent, b)
			if op == "send2" {
				cs.conn.Write(b[:7])
				cs.conn.Write(b[7:])
			} else {
				cs.conn.Write(b)
			}
		case strings.HasPrefix(op, "write:"):
			if cs.conn == nil {
				return
			}
			b, err := hex.DecodeString(op[6:])
			if err != nil {
				panic(err)
			}
			cs.rawSent = append(cs.rawSent, b...)
			cs.conn.Write(b)
		case op == "drain":
			// wait until the server has taken everything written so far out of the connection
			if cs.conn != nil {
				srv := cs.conn.Peer()
				vsched.BlockH("client.drain", func() bool { return srv.Pending() == 0 || srv.IsClosed() }, 0)
			}
		case strings.HasPrefix(op, "check:"):
			// after quiescence: exactly this many reply bytes must have arrived (nothing early, nothing missing)
			want, _ := strconv.Atoi(op[6:])
			if cs.conn != nil {
				have := cs.conn.Pending() + len(cs.partial)
				for _, g := range cs.got {
					have += len(g)
				}
				if have != want {
					kind := "reply-before-request-complete"
					if have < want {
						kind = "request-unanswered-at-quiescence"
					}
					r.fail(kind, fmt.Sprintf("client %d: after writing %d stream bytes and letting the server settle, %d reply bytes have arrived, the completed requests account for %d", i, len(cs.rawSent), have, want), nil)
				}
			}
		case strings.HasPrefix(op, "recvall:"):
			if cs.conn == nil {
				return
			}
			k, _ := strconv.Atoi(op[8:])
			for len(cs.got) < k && !cs.eof && !cs.timedOut && cs.rerr == "" {
				r.recv(cs)
			}
		case op == "recv":
			if cs.conn == nil {
				return
			}
			r.recv(cs)
		case op == "close":
			if cs.conn != nil && !cs.closed {
				cs.closed = true
				cs.conn.Close()
			}
		case op == "quiesce":
			vsched.Quiesce()
			r.settle()
		case op == "wait-ctl":
			vsched.Block("client.wait-ctl", func() bool { return r.ctlDone }, 0)
		case strings.HasPrefix(op, "sleep:"):
			ms, _ := strconv.Atoi(op[6:])
			vtime.Sleep(time.Duration(ms) * time.Millisecond)
		default:
			panic("unknown client op " + op)
		}
		r.opsDone++
		vsched.Signal()
	}
}

// recv reads one complete reply frame (or EOF / error / virtual timeout of 10 s).
func (r *run) recv(cs *clientState) {
	buf := make([]byte, 300)
	deadline := vtime.Now().Add(10 * time.Second)
	for {
		if fr, rest := serverx.SplitReplies(cs.partial); len(fr) > 0 {
			cs.got = append(cs.got, fr[0])
			var keep []byte // the frames after the first stay buffered, in order, followed by the incomplete tail
			for _, x := range fr[1:] {
				keep = append(keep, x...)
			}
			cs.partial = append(keep, rest...)
			return
		}
		cs.conn.SetReadDeadline(deadline)
		n, err := cs.conn.Read(buf)
		cs.partial = append(cs.partial, buf[:n]...)
		if err != nil {
			switch {
			case errors.Is(err, io.EOF):
				cs.eof = true
			case errors.Is(err, os.ErrDeadlineExceeded):
				cs.timedOut = true
			default:
				cs.rerr = err.Error()
			}
			if fr, rest := serverx.SplitReplies(cs.partial); len(fr) > 0 {
				cs.got = append(cs.got, fr...)
				cs.partial = append([]byte(nil), rest...)
			}
			return
		}
	}
}

// serverWrote returns the complete reply frames the server has put on the wire of connection id so far.
func (r *run) serverWrote(id int) int {
	var b []byte
	for _, e := range r.net.Log {
		if e.Conn == id && e.Side == "srv" && e.Op == "write" && e.Err == "" {
			b = append(b, e.Data...)
		}
	}
	fr, _ := serverx.SplitReplies(b)
	return len(fr)
}

// afterGracefulShutdown: what must hold at the instant Shutdown returns nil.
func (r *run) afterGracefulShutdown() {
	// (if Shutdown ran before Serve had published its listener the port is closed by Serve itself when it starts:
	// that case is judged at quiescence)
	if r.served && !r.net.L.IsClosed() {
		r.fail("port-open-after-shutdown", "Shutdown returned nil after the server reported that it is serving, but the listener still accepts connections", nil)
	}
	for _, scn := range r.net.Conns {
		ci := r.conn[scn.ID()]
		if ci == nil || ci.rejected {
			continue
		}
		cl := scn.Peer()
		// in-flight: every handler invocation that had started has its complete reply on the wire (unless the
		// handler panicked or the client had gone away)
		if ci.handlerSt > 0 && !ci.panicked && !cl.IsClosed() {
			if w := r.serverWrote(scn.ID()); w < ci.handlerSt {
				r.fail("inflight-reply-lost", fmt.Sprintf("Shutdown returned nil; on connection %d %d handler invocation(s) had started but only %d complete repl(ies) were sent", scn.ID(), ci.handlerSt, w),
					map[string]any{"handler": r.sc.Handler})
			}
		}
	}
	r.startedAtShutRet = map[int]int{}
	for id, ci := range r.conn {
		r.startedAtShutRet[id] = ci.handlerSt
	}
}

// atQuiescence: scripts and controller are done and nothing can run without time passing.
func (r *run) atQuiescence() {
	if r.shutRet && r.shutErr == nil {
		for _, scn := range r.net.Conns {
			if !scn.Accepted() {
				continue
			}
			if !scn.IsClosed() && !scn.PeerClosed() {
				r.fail("connection-open-after-shutdown", fmt.Sprintf("Shutdown returned nil, the system is quiescent, but accepted connection %d is still open on the server side", scn.ID()), nil)
			}
		}
		if !r.net.L.IsClosed() {
			r.fail("port-open-after-shutdown", "Shutdown returned nil and the system is quiescent, but the listener still accepts connections", nil)
		}
		if !r.serveRet {
			r.fail("serve-not-returned-after-shutdown", "Shutdown returned nil and the system is quiescent, but Serve has not returned", nil)
		}
	}
	// "cancelling the context given to the serve call makes it return in bounded time": no timer, deadline or further
	// stimulus may be needed, so Serve must have returned by the time nothing can run any more without time passing
	if r.cancelled && !r.serveRet {
		r.fail("serve-not-returned-after-cancel", "the serve context was cancelled and the system is quiescent, but Serve has not returned", nil)
	}
	for _, scn := range r.net.Conns {
		ci := r.conn[scn.ID()]
		if ci != nil && ci.panicked {
			if !scn.IsClosed() {
				r.fail("connection-open-after-handler-panic", fmt.Sprintf("the handler panicked on connection %d; the system is quiescent but the server has not closed that connection", scn.ID()), nil)
			}
			if r.sc.Callbacks&CbError != 0 {
				told := false
				for _, e := range r.onErrors {
					if strings.Contains(e, "panic") {
						told = true
					}
				}
				if !told {
					r.fail("panic-not-reported", fmt.Sprintf("the handler panicked on connection %d but OnErrorFunc was not told (calls: %v)", scn.ID(), r.onErrors), nil)
				}
			}
		}
	}
	for _, scn := range r.net.Conns {
		ci := r.conn[scn.ID()]
		if ci != nil && ci.rejected && !scn.IsClosed() {
			r.fail("rejected-connection-open", fmt.Sprintf("connection %d was rejected by OnAcceptConnFunc but is still open at quiescence", scn.ID()), nil)
		}
	}
}

// final runs after every thread has ended (or the execution was aborted).
func (r *run) final() {
	o := r.res.Out
	sc := r.sc
	if o.Crash != "" {
		r.res.V = append(r.res.V, V{Kind: "process-crash", Msg: fmt.Sprintf("unrecovered panic in thread %s: %s", o.CrashIn, firstLine(o.Crash)), Attrs: map[string]any{"in": threadClass(o.CrashIn), "panic": firstLine(o.Crash)}})
		r.res.Summary = "crash"
		return
	}
	if o.Deadlock {
		r.res.V = append(r.res.V, V{Kind: "deadlock", Msg: fmt.Sprintf("no thread can run and no timer is pending; blocked: %v (serve returned=%v, shutdown called=%v returned=%v, cancelled=%v)", o.Blocked, r.serveRet, r.shutCalled, r.shutRet, r.cancelled), Attrs: map[string]any{"blocked": classes(o.Blocked)}})
		r.res.Summary = "deadlock"
		return
	}
	if o.StepLimit {
		r.res.V = append(r.res.V, V{Kind: "step-limit", Msg: fmt.Sprintf("execution did not finish within %d steps (livelock?)", o.Steps), Attrs: nil})
		r.res.Summary = "step-limit"
		return
	}
	// Serve
	if !r.serveRet {
		r.fail2("serve-never-returned", "every thread ended but Serve did not record a return", nil)
	} else if r.shutRet && r.shutErr == nil {
		if !errors.Is(r.serveErr, server.ErrServerClosed) {
			r.fail2("serve-wrong-error", fmt.Sprintf("Serve returned %v after a successful Shutdown, want ErrServerClosed", r.serveErr), nil)
		}
	}
	// close callback exactly once per accepted, non-rejected connection
	nAcc := 0
	for _, scn := range r.net.Conns {
		ci := r.conn[scn.ID()]
		if !scn.Accepted() {
			continue
		}
		if ci == nil {
			ci = r.info(scn.ID())
		}
		if ci.rejected {
			if !scn.IsClosed() {
				r.fail2("rejected-connection-open", fmt.Sprintf("connection %d was rejected by OnAcceptConnFunc but never closed", scn.ID()), nil)
			}
			continue
		}
		if sc.Callbacks&CbAccept != 0 && !ci.accepted {
			// accepted by the listener, but the serve loop ended before the callback: not an accepted connection
			continue
		}
		nAcc++
		if sc.Callbacks&CbClose != 0 && (ci.closeCbs > 1 || (ci.closeCbs == 0 && r.tracked(scn))) {
			r.fail2("close-callback-count", fmt.Sprintf("OnCloseConnFunc ran %d times for accepted connection %d", ci.closeCbs, scn.ID()), map[string]any{"count": ci.closeCbs})
		}
		if !scn.IsClosed() && r.shutRet && r.shutErr == nil {
			r.fail2("connection-leaked", fmt.Sprintf("Shutdown returned nil but accepted connection %d was never closed by the server", scn.ID()), nil)
		}
	}
	r.res.Accepted = nAcc
	// replies
	for i, cs := range r.clients {
		if i < len(sc.Expect) && sc.Expect[i] != nil {
			var got []string
			for _, g := range cs.got {
				r.res.Replies++
				got = append(got, hex.EncodeToString(g))
			}
			if len(cs.partial) > 0 {
				got = append(got, "partial:"+hex.EncodeToString(cs.partial))
			}
			if strings.Join(got, ",") != strings.Join(sc.Expect[i], ",") {
				kind := "wrong-replies"
				if len(got) < len(sc.Expect[i]) && strings.HasPrefix(strings.Join(sc.Expect[i], ","), strings.Join(got, ",")) {
					kind = "request-unanswered"
				} else if len(got) > len(sc.Expect[i]) {
					kind = "extra-reply"
				}
				r.fail2(kind, fmt.Sprintf("client %d received replies [%s], reference [%s] (eof=%v timeout=%v)", i, strings.Join(got, ","), strings.Join(sc.Expect[i], ","), cs.eof, cs.timedOut), nil)
			}
			continue
		}
		for j, got := range cs.got {
			r.res.Replies++
			if j >= len(cs.sent) {
				r.fail2("unsolicited-reply", fmt.Sprintf("client %d received reply %x without a request", i, got), nil)
				continue
			}
			f := frameFor(sc, i, j)
			exp := serverx.ReplyExpect{Request: cs.sent[j], Valid: f.Valid, ExcCode: -1}
			if string(cs.sent[j]) != string(f.Bytes) {
				continue // sendbad: not a request
			}
			hk := sc.Handler
			if m, ok := sc.HandlerByConn[cs.conn.ID()]; ok && j == 0 {
				hk = m
			}
			switch hk {
			case "generic-error":
				exp.Valid = false
			case "typed-error":
				exp.Valid, exp.ExcCode = false, 4
			default:
				if f.Valid {
					exp.Want = refReply(f.Bytes)
				} else if f.Exc != 0 {
					exp.ExcCode = int(f.Exc)
				}
			}
			if f.Valid == false && f.Exc != 0 {
				exp.Valid, exp.ExcCode = false, int(f.Exc)
			}
			if kind, msg := serverx.CheckReply(got, exp); kind != "" {
				r.fail2(kind, fmt.Sprintf("client %d request %d: %s", i, j, msg), nil)
			}
		}
		if len(cs.partial) > 0 && (cs.eof || cs.timedOut) {
			r.fail2("partial-reply", fmt.Sprintf("client %d received an incomplete reply %x (eof=%v)", i, cs.partial, cs.eof), nil)
		}
	}
	// a reply must reach a client that kept its connection open, sent a valid request and waited, when neither
	// shutdown nor cancel nor a panicking handler was involved
	if !r.shutCalled && sc.Control != "cancel" && sc.Handler != "panic" && sc.Handler != "nil-nil" {
		for i, cs := range r.clients {
			ci := (*connInfo)(nil)
			if cs.conn != nil {
				ci = r.conn[cs.conn.ID()]
			}
			if ci == nil || ci.rejected || ci.panicked || (i < len(sc.Expect) && sc.Expect[i] != nil) {
				continue
			}
			want := 0
			for _, op := range sc.Clients[i] {
				if op == "recv" {
					want++
				}
			}
			if want > len(cs.sent) {
				want = len(cs.sent)
			}
			if len(cs.got) < want && !cs.closed0(sc.Clients[i]) {
				r.fail2("reply-missing", fmt.Sprintf("client %d sent %d request(s), waited for %d repl(ies), received %d (eof=%v timeout=%v err=%q)", i, len(cs.sent), want, len(cs.got), cs.eof, cs.timedOut, cs.rerr), nil)
			}
		}
	}
	r.res.Summary = r.summary()
}

// tracked: was the connection handed to a connection goroutine (only then the close callback is due). Black-box
// approximation: the server read from it or wrote to it or closed it after accepting; a connection that was accepted
// but dropped because the serve loop ended between Accept and tracking is not "accepted" in the sense of the property.
func (r *run) tracked(scn *memnet.Conn) bool {
	ci := r.conn[scn.ID()]
	if r.sc.Callbacks&CbAccept != 0 {
		return ci != nil && ci.accepted && !ci.rejected && r.servedConn(scn.ID())
	}
	return r.servedConn(scn.ID())
}

func (r *run) servedConn(id int) bool {
	for _, e := range r.net.Log {
		if e.Conn == id && e.Side == "srv" && (e.Op == "read" || e.Op == "write") {
			return true
		}
	}
	return false
}

func (cs *clientState) closed0(ops []string) bool {
	// the script itself closes before all replies were awaited
	seenRecv := 0
	for _, op := range ops {
		if op == "recv" {
			seenRecv++
		}
		if op == "close" {
			return seenRecv < len(cs.sent)
		}
	}
	return false
}

func (r *run) fail2(kind, msg string, attrs map[string]any) {
	if attrs == nil {
		attrs = map[string]any{}
	}
	r.res.V = append(r.res.V, V{Kind: kind, Msg: msg, Attrs: attrs})
}

func refReply(frame []byte) []byte {
	rq, err := spec.DecodeReq(frame, false)
	if err != nil {
		return nil
	}
	resp := serverx.NewDevice().Handle(rq)
	if resp.Exc {
		return nil
	}
	return resp.Frame(false)
}

func (r *run) summary() string {
	var sb strings.Builder
	fmt.Fprintf(&sb, "serve=%v shut=%v/%v", errName(r.serveErr), r.shutRet, errName(r.shutErr))
	for i, cs := range r.clients {
		fmt.Fprintf(&sb, " c%d[dial=%v got=%d eof=%v to=%v]", i, cs.dialErr == nil, len(cs.got), cs.eof, cs.timedOut)
	}
	fmt.Fprintf(&sb, " handled=%d", r.res.Handled)
	return sb.String()
}

func errName(err error) string {
	switch {
	case err == nil:
		return "nil"
	case errors.Is(err, server.ErrServerClosed):
		return "closed"
	case errors.Is(err, context.Canceled):
		return "canceled"
	}
	return "other"
}

func firstLine(s string) string {
	if i := strings.IndexByte(s, '\n'); i >= 0 {
		return s[:i]
	}
	return s
}

func threadClass(name string) string {
	switch {
	case strings.HasPrefix(name, "client"):
		return "client"
	case strings.HasPrefix(name, "go"):
		return "server-goroutine"
	}
	return name
}

func classes(bl []string) string {
	var out []string
	for _, b := range bl {
		name, at, _ := strings.Cut(b, "@")
		out = append(out, threadClass(name)+"@"+at)
	}
	return strings.Join(out, ",")
}
