package lib

import (
	"fmt"
	"reflect"
)

// Same compares two values returned by the library field by field (slices by content; nil slice == empty slice;
// pointers by pointee; two nils are equal).
func Same(a, b any) bool { return same(reflect.ValueOf(a), reflect.ValueOf(b)) }

func same(a, b reflect.Value) bool {
	if !a.IsValid() || !b.IsValid() {
		return a.IsValid() == b.IsValid()
	}
	for a.Kind() == reflect.Ptr || a.Kind() == reflect.Interface {
		if a.IsNil() {
			break
		}
		a = a.Elem()
	}
	for b.Kind() == reflect.Ptr || b.Kind() == reflect.Interface {
		if b.IsNil() {
			break
		}
		b = b.Elem()
	}
	an := (a.Kind() == reflect.Ptr || a.Kind() == reflect.Interface) && a.IsNil()
	bn := (b.Kind() == reflect.Ptr || b.Kind() == reflect.Interface) && b.IsNil()
	if an || bn {
		return an == bn
	}
	if a.Type() != b.Type() {
		return false
	}
	switch a.Kind() {
	case reflect.Struct:
		for i := 0; i < a.NumField(); i++ {
			if !same(a.Field(i), b.Field(i)) {
				return false
			}
		}
		return true
	case reflect.Slice, reflect.Array:
		if a.Len() != b.Len() {
			return false
		}
		if a.Kind() == reflect.Slice && a.Type().Elem().Kind() == reflect.Uint8 {
			return string(a.Bytes()) == string(b.Bytes())
		}
		for i := 0; i < a.Len(); i++ {
			if !same(a.Index(i), b.Index(i)) {
				return false
			}
		}
		return true
	case reflect.Bool:
		return a.Bool() == b.Bool()
	case reflect.Int, reflect.Int8, reflect.Int16, reflect.Int32, reflect.Int64:
		return a.Int() == b.Int()
	case reflect.Uint, reflect.Uint8, reflect.Uint16, reflect.Uint32, reflect.Uint64:
		return a.Uint() == b.Uint()
	case reflect.String:
		return a.String() == b.String()
	case reflect.Float32, reflect.Float64:
		return a.Float() == b.Float() || (a.Float() != a.Float() && b.Float() != b.Float())
	default:
		return fmt.Sprint(a) == fmt.Sprint(b)
	}
}

// SameErr compares errors by dynamic type and text.
func SameErr(a, b error) bool {
	if a == nil || b == nil {
		return a == nil && b == nil
	}
	return reflect.TypeOf(a) == reflect.TypeOf(b) && a.Error() == b.Error()
}
