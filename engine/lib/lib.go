// Package lib adapts abstract spec requests to calls of the library under test.
package lib

import (
	"context"
	"fmt"
	"reflect"

	"github.com/aldas/go-modbus-client/packet"
	"verif/spec"
)

// Bits expands an LSB-first packed payload into n booleans.
func Bits(data []byte, n int) []bool {
	out := make([]bool, n)
	for i := 0; i < n && i/8 < len(data); i++ {
		out[i] = spec.Bit(data, i)
	}
	return out
}

// NewRequest calls the library constructor corresponding to r. For FC15 the coil slice has r.Qty elements taken
// from r.Data; for FC16/23 the payload is r.Data; the transaction id of TCP requests is overwritten with r.TID.
func NewRequest(r spec.Req, rtu bool) (packet.Request, error) {
	var req packet.Request
	var err error
	switch r.FC {
	case spec.FC1:
		if rtu {
			req, err = nn(packet.NewReadCoilsRequestRTU(r.Unit, r.Addr, r.Qty))
		} else {
			req, err = nn(packet.NewReadCoilsRequestTCP(r.Unit, r.Addr, r.Qty))
		}
	case spec.FC2:
		if rtu {
			req, err = nn(packet.NewReadDiscreteInputsRequestRTU(r.Unit, r.Addr, r.Qty))
		} else {
			req, err = nn(packet.NewReadDiscreteInputsRequestTCP(r.Unit, r.Addr, r.Qty))
		}
	case spec.FC3:
		if rtu {
			req, err = nn(packet.NewReadHoldingRegistersRequestRTU(r.Unit, r.Addr, r.Qty))
		} else {
			req, err = nn(packet.NewReadHoldingRegistersRequestTCP(r.Unit, r.Addr, r.Qty))
		}
	case spec.FC4:
		if rtu {
			req, err = nn(packet.NewReadInputRegistersRequestRTU(r.Unit, r.Addr, r.Qty))
		} else {
			req, err = nn(packet.NewReadInputRegistersRequestTCP(r.Unit, r.Addr, r.Qty))
		}
	case spec.FC5:
		if rtu {
			req, err = nn(packet.NewWriteSingleCoilRequestRTU(r.Unit, r.Addr, r.Value == spec.CoilOn))
		} else {
			req, err = nn(packet.NewWriteSingleCoilRequestTCP(r.Unit, r.Addr, r.Value == spec.CoilOn))
		}
	case spec.FC6:
		d := []byte{byte(r.Value >> 8), byte(r.Value)}
		if rtu {
			req, err = nn(packet.NewWriteSingleRegisterRequestRTU(r.Unit, r.Addr, d))
		} else {
			req, err = nn(packet.NewWriteSingleRegisterRequestTCP(r.Unit, r.Addr, d))
		}
	case spec.FC15:
		coils := Bits(r.Data, int(r.Qty))
		if rtu {
			req, err = nn(packet.NewWriteMultipleCoilsRequestRTU(r.Unit, r.Addr, coils))
		} else {
			req, err = nn(packet.NewWriteMultipleCoilsRequestTCP(r.Unit, r.Addr, coils))
		}
	case spec.FC16:
		if rtu {
			req, err = nn(packet.NewWriteMultipleRegistersRequestRTU(r.Unit, r.Addr, r.Data))
		} else {
			req, err = nn(packet.NewWriteMultipleRegistersRequestTCP(r.Unit, r.Addr, r.Data))
		}
	case spec.FC17:
		if rtu {
			req, err = nn(packet.NewReadServerIDRequestRTU(r.Unit))
		} else {
			req, err = nn(packet.NewReadServerIDRequestTCP(r.Unit))
		}
	case spec.FC23:
		if rtu {
			req, err = nn(packet.NewReadWriteMultipleRegistersRequestRTU(r.Unit, r.Addr, r.Qty, r.WAddr, r.Data))
		} else {
			req, err = nn(packet.NewReadWriteMultipleRegistersRequestTCP(r.Unit, r.Addr, r.Qty, r.WAddr, r.Data))
		}
	default:
		return nil, fmt.Errorf("lib: unsupported fc %d", r.FC)
	}
	if err != nil || req == nil {
		return req, err
	}
	if !rtu {
		SetTID(req, r.TID)
	}
	return req, nil
}

// nn normalises a typed nil pointer to a nil interface while keeping it detectable: it returns the interface as is
// (callers use IsNil) together with the error.
func nn[T packet.Request](v T, err error) (packet.Request, error) { return v, err }

// IsNil reports whether v is a nil interface or holds a nil pointer.
func IsNil(v any) bool {
	if v == nil {
		return true
	}
	rv := reflect.ValueOf(v)
	switch rv.Kind() {
	case reflect.Ptr, reflect.Slice, reflect.Map, reflect.Interface, reflect.Func, reflect.Chan:
		return rv.IsNil()
	}
	return false
}

// SetTID overwrites the (random) transaction id of a TCP request through its exported field.
func SetTID(req packet.Request, tid uint16) {
	rv := reflect.ValueOf(req)
	if rv.Kind() == reflect.Ptr && !rv.IsNil() {
		f := rv.Elem().FieldByName("TransactionID")
		if f.IsValid() && f.CanSet() {
			f.SetUint(uint64(tid))
		}
	}
}

// B16 is the 16-bit boundary alphabet of DESIGN §2.1.
var B16 = []uint16{0, 1, 2, 3, 4, 7, 8, 9, 123, 124, 125, 126, 127, 128, 255, 256, 257, 1999, 2000, 2001, 32767, 32768,
	65407, 65408, 65409, 65410, 65411, 65531, 65532, 65533, 65534, 65535}

// B8 is the 8-bit boundary alphabet.
var B8 = []uint8{0, 1, 2, 3, 7, 8, 15, 16, 17, 127, 128, 129, 246, 247, 250, 251, 254, 255}

// Pattern produces a payload of n bytes. Kinds: "pos" (every position a different value), "zeros", "ones", "alt",
// "onehot" (only bit k set), "onecold" (only bit k clear).
func Pattern(kind string, n int, k int) []byte {
	b := make([]byte, n)
	switch kind {
	case "pos":
		for i := range b {
			b[i] = byte(i*13 + 7)
		}
	case "zeros":
	case "ones":
		for i := range b {
			b[i] = 0xFF
		}
	case "alt":
		for i := range b {
			if i%2 == 0 {
				b[i] = 0x55
			} else {
				b[i] = 0xAA
			}
		}
	case "word": // the 16-bit value k repeated (big-endian): data values, not positions
		for i := range b {
			if i%2 == 0 {
				b[i] = byte(k >> 8)
			} else {
				b[i] = byte(k)
			}
		}
	case "onehot":
		if k/8 < n {
			b[k/8] = 1 << uint(k%8)
		}
	case "onecold":
		for i := range b {
			b[i] = 0xFF
		}
		if k/8 < n {
			b[k/8] &^= 1 << uint(k%8)
		}
	default:
		panic("lib.Pattern: " + kind)
	}
	return b
}

// SafeDo calls do and turns a panic inside the library into an error (the checks report it as the violation it is
// instead of dying with it).
func SafeDo(do func(context.Context, packet.Request) (packet.Response, error), ctx context.Context, q packet.Request) (resp packet.Response, err error) {
	defer func() {
		if rec := recover(); rec != nil {
			resp, err = nil, &PanicError{Value: fmt.Sprint(rec)}
		}
	}()
	return do(ctx, q)
}

// PanicError is what SafeDo returns when the call panicked.
type PanicError struct{ Value string }

func (p *PanicError) Error() string { return "PANIC inside the request call: " + p.Value }

// SetField sets an exported unsigned-integer field of the request (reached through embedded structs too), if it has one.
func SetField(req packet.Request, name string, v uint64) {
	rv := reflect.ValueOf(req)
	if rv.Kind() == reflect.Ptr && !rv.IsNil() {
		f := rv.Elem().FieldByName(name)
		if f.IsValid() && f.CanSet() && f.Kind() >= reflect.Uint && f.Kind() <= reflect.Uint64 {
			f.SetUint(v)
		}
	}
}
