package clientx

import (
	"errors"
	"io"
	"os"

	"verif/explore"
)

// ErrInjected is the I/O failure injected by fault alternatives.
var ErrInjected = errors.New("injected transport failure")

// Frag is the fragmentation policy shared by C07 and C19: at every read the environment either delivers everything
// that is left (default) or deviates (budgets "cut", "empty", "eof", "fault" of the explore.Ctx):
// delivers only the next k bytes, answers with an empty timed-out read, adds io.EOF to the last chunk, or fails the
// read with an I/O error / closes the stream.
type Frag struct {
	C       *explore.Ctx
	Kind    Kind
	stalled bool // the "stall" fault was taken: the line stays silent until the client's total read timeout
}

func (p *Frag) Read(t *Transport, bufLen int) ReadAnswer {
	r := t.Remaining()
	if r == 0 || p.stalled {
		// the complete reply has been delivered and the client still reads: the line stays silent
		if p.Kind.IsSerial() {
			return ReadAnswer{Timeout: true, Label: "silent"}
		}
		return ReadAnswer{Timeout: true, Err: TimeoutErr(), Label: "silent"}
	}
	all := r
	if all > bufLen {
		all = bufLen
	}
	alts := []ReadAnswer{{N: all, Label: "all"}}
	if p.C.Left("cut") > 0 {
		for k := 1; k < r && k < bufLen; k++ {
			alts = append(alts, ReadAnswer{N: k, Label: "cut"})
		}
	}
	if p.C.Left("empty") > 0 {
		if p.Kind.IsSerial() {
			alts = append(alts, ReadAnswer{Timeout: true, Label: "empty"}, // 0, nil after the port's own timeout
				ReadAnswer{Timeout: true, Err: os.ErrDeadlineExceeded, Label: "empty"},
				ReadAnswer{Timeout: true, Err: io.EOF, Label: "empty"})
		} else {
			alts = append(alts, ReadAnswer{Timeout: true, Err: TimeoutErr(), Label: "empty"})
		}
	}
	if p.C.Left("eof") > 0 && r <= bufLen { // (a serial port may do this as well: io.Reader allows n > 0 together with io.EOF)
		alts = append(alts, ReadAnswer{N: r, Err: io.EOF, Label: "eof"})
	}
	if p.C.Left("fault") > 0 {
		alts = append(alts, ReadAnswer{Err: ErrInjected, Label: "fault"}, ReadAnswer{N: 1, Err: ErrInjected, Label: "fault"})
		if !p.Kind.IsSerial() {
			alts = append(alts, ReadAnswer{Err: io.EOF, Label: "fault"})
		}
		// stall: from here on nothing arrives any more (the call runs into its total read timeout)
		if p.Kind.IsSerial() {
			alts = append(alts, ReadAnswer{Timeout: true, Label: "fault-stall"})
		} else {
			alts = append(alts, ReadAnswer{Timeout: true, Err: TimeoutErr(), Label: "fault-stall"})
		}
	}
	i := p.C.Choose(len(alts), "read")
	a := alts[i]
	if a.Label == "fault-stall" {
		p.stalled = true
		a.Label = "fault"
	}
	if a.Label != "all" {
		p.C.Spend(a.Label)
	}
	return a
}
func (p *Frag) Write(t *Transport, data []byte) error { return nil }
func (p *Frag) SetWriteDeadline(t *Transport) error   { return nil }
