package clientx

import (
	"fmt"

	"github.com/aldas/go-modbus-client/packet"
	"verif/lib"
	"verif/spec"
)

// Sc bundles a scenario with its library request.
type Sc struct {
	Scenario
	Q packet.Request
}

var dev = spec.NewDevice(spec.ImageHash, spec.BitImage)

// Requests returns the request alphabet for one function code: sizes over the whole legal range when full is set,
// boundary sizes otherwise.
func Requests(fc uint8, full bool) []spec.Req {
	var out []spec.Req
	sizes := func(max int, boundary []int) []int {
		if full {
			s := make([]int, 0, max)
			for i := 1; i <= max; i++ {
				s = append(s, i)
			}
			return s
		}
		return boundary
	}
	switch fc {
	case 1, 2:
		// every reply byte count 1..250 <=> quantities 8,16,...,2000 plus non-multiples
		for _, n := range sizes(250, []int{1, 2, 3, 4, 125, 249, 250}) {
			out = append(out, spec.Req{FC: fc, Addr: 0x13, Qty: uint16(8*n - 3)})
		}
	case 3, 4:
		for _, n := range sizes(125, []int{1, 2, 3, 62, 124, 125}) {
			out = append(out, spec.Req{FC: fc, Addr: 0x6B, Qty: uint16(n)})
		}
	case 5:
		out = append(out, spec.Req{FC: 5, Addr: 0xAC, Value: spec.CoilOn}, spec.Req{FC: 5, Addr: 0xAD, Value: spec.CoilOff})
		out = append(out, spec.Req{FC: 5, Addr: 0, Value: spec.CoilOn}) // address 0: bytes 2..3 of the RTU echo are 00 00
	case 6:
		out = append(out, spec.Req{FC: 6, Addr: 1, Value: 3})
		out = append(out, spec.Req{FC: 6, Addr: 0, Value: 0xFFFE}, spec.Req{FC: 6, Addr: 0xFFFF, Value: 0})
	case 15:
		out = append(out, spec.Req{FC: 15, Addr: 0x13, Qty: 10, Data: []byte{0xCD, 0x01}})
		out = append(out, spec.Req{FC: 15, Addr: 0, Qty: 1968, Data: bigPattern(246)}) // the largest request frames: 259 / 255 bytes
	case 16:
		out = append(out, spec.Req{FC: 16, Addr: 1, Qty: 2, Data: []byte{0, 10, 1, 2}})
		out = append(out, spec.Req{FC: 16, Addr: 100, Qty: 123, Data: bigPattern(246)})
	case 17:
		out = append(out, spec.Req{FC: 17})
	case 23:
		for _, n := range sizes(124, []int{1, 2, 3, 62, 123, 124}) {
			out = append(out, spec.Req{FC: 23, Addr: 3, Qty: uint16(n), WAddr: 14, WQty: 3, Data: []byte{0, 255, 0, 255, 0, 255}})
		}
	}
	for i := range out {
		out[i].Unit, out[i].TID = 0x11, 0x0102
	}
	return out
}

func bigPattern(n int) []byte {
	b := make([]byte, n)
	for i := range b {
		b[i] = byte(i*7 + 1)
	}
	return b
}

// Scenarios builds the normal-reply scenarios of one client kind. FC17 gets several device identities.
func Scenarios(kind Kind, full bool) []Sc {
	var out []Sc
	for _, fc := range spec.AllFC {
		for _, r := range Requests(fc, full) {
			if fc == 17 {
				ids := [][2]int{{1, 0}, {2, 3}, {20, 8}}
				if full {
					ids = nil
					for id := 1; id <= 20; id++ {
						for ex := 0; ex <= 8; ex += 2 {
							ids = append(ids, [2]int{id, ex})
						}
					}
				}
				for _, ie := range ids {
					d := *dev
					d.ServerID, d.Extra = lib.Pattern("pos", ie[0], 0), lib.Pattern("pos", ie[1], 0)
					sc, q, err := NewScenario(kind, r, &d, -1)
					if err == nil {
						sc.Name += fmt.Sprintf("/id%d+%d", ie[0], ie[1])
						out = append(out, Sc{sc, q})
					}
				}
				continue
			}
			sc, q, err := NewScenario(kind, r, dev, -1)
			if err == nil {
				out = append(out, Sc{sc, q})
			}
		}
	}
	return out
}

// ExceptionScenarios: one request per function answered with each exception code.
func ExceptionScenarios(kind Kind, codes []int) []Sc {
	var out []Sc
	for _, fc := range spec.AllFC {
		r := Requests(fc, false)[0]
		for _, code := range codes {
			sc, q, err := NewScenario(kind, r, dev, code)
			if err == nil {
				out = append(out, Sc{sc, q})
			}
		}
	}
	return out
}

// PinnedExpected is the value every *_ExpectedResponseLength test of the repository pins for the request type.
func PinnedExpected(r spec.Req, rtu bool) int {
	q := int(r.Qty)
	if !rtu {
		switch r.FC {
		case 1, 2:
			return 9 + (q+7)/8
		case 3, 4:
			return 9 + 2*q
		case 5:
			return 11
		case 6, 15, 16:
			return 12
		case 17:
			return 8
		case 23:
			return 17 + 2*q
		}
	}
	switch r.FC {
	case 1, 2:
		return 4 + (q+7)/8
	case 3, 4:
		return 4 + 2*q
	case 5, 6:
		return 6
	case 15, 16:
		return 8
	case 17:
		return 2
	case 23:
		return 6 + 2*q
	}
	return -1
}
