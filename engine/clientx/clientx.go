// Package clientx is the shared harness for the client-side explorers (C07, C08, C12, C19): scripted transports whose
// every answer is an explored choice, construction of the three client kinds from the (overlay-instrumented) library,
// virtual time, and a complete record of each execution.
package clientx

import (
	"context"
	"errors"
	"fmt"
	"io"
	"net"
	"os"
	"time"

	modbus "github.com/aldas/go-modbus-client"
	"github.com/aldas/go-modbus-client/packet"
	"github.com/aldas/go-modbus-client/verifshim/vtime"
	"verif/lib"
	"verif/spec"
)

// Kind of client.
type Kind int

const (
	TCP Kind = iota
	RTUNet
	Serial        // io.ReadWriteCloser without Flush
	SerialFlusher // io.ReadWriteCloser with Flush
)

func (k Kind) String() string { return [...]string{"tcp", "rtu-net", "serial", "serial-flusher"}[k] }
func (k Kind) RTU() bool      { return k != TCP }
func (k Kind) IsSerial() bool { return k == Serial || k == SerialFlusher }

// Event is one transport-level event in order of occurrence.
type Event struct {
	Seq   int    `json:"seq"`
	Op    string `json:"op"` // write, read, setwritedeadline, setreaddeadline, close, flush
	Data  []byte `json:"data,omitempty"`
	N     int    `json:"n"`
	Err   string `json:"err,omitempty"`
	err   error
	AtNs  int64 `json:"at_ns"`
	BufSz int   `json:"buf,omitempty"`
}

// HookEvent is one ClientHooks call with copied arguments.
type HookEvent struct {
	Seq  int    `json:"seq"`
	Hook string `json:"hook"`
	Data []byte `json:"data"`
	N    int    `json:"n"`
	Err  string `json:"err,omitempty"`
	err  error
}

// ReadAnswer is what the environment answers to one Read.
type ReadAnswer struct {
	N       int    // bytes of the remaining reply to deliver
	Extra   []byte // bytes that are not part of the reply (floods)
	Err     error  // error returned together with the bytes
	Timeout bool   // empty timed-out read: clock advances to the read deadline (network) / by the port timeout (serial)
	Cancel  bool   // cancel the caller's context before returning
	Label   string
}

// Policy decides every transport answer of one execution.
type Policy interface {
	Read(t *Transport, bufLen int) ReadAnswer
	Write(t *Transport, data []byte) error
	SetWriteDeadline(t *Transport) error
}

// MinReadCost is the virtual time every transport read consumes at least.
const MinReadCost = 10 * time.Microsecond

// Hang is raised when an execution performs more transport reads than any terminating execution can.
type Hang struct{ Reads int }

// Transport implements net.Conn and io.ReadWriteCloser(+Flusher) over a scripted reply.
type Transport struct {
	Kind      Kind
	Reply     []byte
	Delivered int
	Log       []Event
	Hooks     []HookEvent
	seq       int
	pol       Policy
	Cancel    context.CancelFunc
	readDL    time.Time
	Reads     int
	MaxReads  int
	PortTO    time.Duration
	Closed    bool
	Flushes   int
	FlushErr  error
}

func (t *Transport) next() int { t.seq++; return t.seq }

func (t *Transport) Remaining() int { return len(t.Reply) - t.Delivered }

// ReplyLen is the length of the scripted reply.
func (t *Transport) ReplyLen() int { return len(t.Reply) }

func (t *Transport) logEv(e Event) {
	e.Seq = t.next()
	e.AtNs = int64(vtime.Elapsed())
	if e.err != nil {
		e.Err = e.err.Error()
	}
	t.Log = append(t.Log, e)
}

func (t *Transport) Read(p []byte) (int, error) {
	t.Reads++
	if t.Reads > t.MaxReads {
		panic(Hang{t.Reads})
	}
	a := t.pol.Read(t, len(p))
	vtime.Advance(MinReadCost) // no transport call is instantaneous: a peer that answers at once still lets real time pass
	if a.Cancel && t.Cancel != nil {
		t.Cancel()
	}
	if a.Timeout {
		if t.Kind.IsSerial() {
			vtime.Advance(t.PortTO)
		} else if !t.readDL.IsZero() {
			vtime.AdvanceTo(t.readDL)
		} else {
			vtime.Advance(t.PortTO)
		}
	}
	n := a.N
	if n > t.Remaining() {
		n = t.Remaining()
	}
	if n > len(p) {
		n = len(p)
	}
	copy(p, t.Reply[t.Delivered:t.Delivered+n])
	t.Delivered += n
	if len(a.Extra) > 0 {
		m := copy(p[n:], a.Extra)
		n += m
	}
	t.logEv(Event{Op: "read", Data: append([]byte(nil), p[:n]...), N: n, err: a.Err, BufSz: len(p)})
	return n, a.Err
}

func (t *Transport) Write(p []byte) (int, error) {
	err := t.pol.Write(t, p)
	t.logEv(Event{Op: "write", Data: append([]byte(nil), p...), N: len(p), err: err})
	if err != nil {
		return 0, err
	}
	return len(p), nil
}

func (t *Transport) Close() error {
	t.Closed = true
	t.logEv(Event{Op: "close"})
	return nil
}

func (t *Transport) Flush() error {
	t.Flushes++
	t.logEv(Event{Op: "flush", err: t.FlushErr})
	return t.FlushErr
}

func (t *Transport) LocalAddr() net.Addr               { return addr("local") }
func (t *Transport) RemoteAddr() net.Addr              { return addr("remote") }
func (t *Transport) SetDeadline(d time.Time) error     { t.readDL = d; return nil }
func (t *Transport) SetReadDeadline(d time.Time) error { t.readDL = d; return nil }
func (t *Transport) SetWriteDeadline(d time.Time) error {
	err := t.pol.SetWriteDeadline(t)
	t.logEv(Event{Op: "setwritedeadline", err: err})
	return err
}

type addr string

func (a addr) Network() string { return "mem" }
func (a addr) String() string  { return string(a) }

// plainPort hides Flush from the serial client (a port that is not a Flusher).
type plainPort struct{ t *Transport }

func (p plainPort) Read(b []byte) (int, error)  { return p.t.Read(b) }
func (p plainPort) Write(b []byte) (int, error) { return p.t.Write(b) }
func (p plainPort) Close() error                { return p.t.Close() }

// TimeoutErr is what a timed-out network read returns (errors.Is(err, os.ErrDeadlineExceeded) holds, as for *net.OpError).
func TimeoutErr() error {
	return &net.OpError{Op: "read", Net: "mem", Err: os.ErrDeadlineExceeded}
}

// recHooks records ClientHooks calls.
type recHooks struct{ t *Transport }

func (h recHooks) BeforeWrite(b []byte) {
	h.t.Hooks = append(h.t.Hooks, HookEvent{Seq: h.t.next(), Hook: "BeforeWrite", Data: append([]byte(nil), b...), N: len(b)})
}
func (h recHooks) AfterEachRead(b []byte, n int, err error) {
	e := HookEvent{Seq: h.t.next(), Hook: "AfterEachRead", Data: append([]byte(nil), b...), N: n, err: err}
	if err != nil {
		e.Err = err.Error()
	}
	h.t.Hooks = append(h.t.Hooks, e)
}
func (h recHooks) BeforeParse(b []byte) {
	h.t.Hooks = append(h.t.Hooks, HookEvent{Seq: h.t.next(), Hook: "BeforeParse", Data: append([]byte(nil), b...), N: len(b)})
}

func (e HookEvent) ErrVal() error { return e.err }
func (e Event) ErrVal() error     { return e.err }

// Scenario is one request/reply pair for one client kind.
type Scenario struct {
	Kind     Kind     `json:"kind"`
	Req      spec.Req `json:"req"`
	Reply    []byte   `json:"reply"`
	Exc      bool     `json:"exception"`
	ExcCode  uint8    `json:"exc_code"`
	Expected int      `json:"expected_len"` // what the request's ExpectedResponseLength says
	Name     string   `json:"name"`
}

// NewScenario builds the request with the library, the reply with the reference device.
func NewScenario(kind Kind, r spec.Req, dev *spec.Device, excCode int) (Scenario, packet.Request, error) {
	q, err := lib.NewRequest(r, kind.RTU())
	if err != nil || lib.IsNil(q) {
		return Scenario{}, nil, fmt.Errorf("constructor refused %+v: %v", r, err)
	}
	var reply spec.Resp
	if excCode >= 0 {
		reply = spec.Resp{FC: r.FC, Unit: r.Unit, TID: r.TID, Exc: true, ExCode: uint8(excCode), Count: -1}
	} else {
		reply = dev.Handle(r)
	}
	sc := Scenario{Kind: kind, Req: r, Reply: reply.Frame(kind.RTU()), Exc: reply.Exc, ExcCode: reply.ExCode, Expected: q.ExpectedResponseLength()}
	sc.Name = fmt.Sprintf("%s/fc%d/reply%d", kind, r.FC, len(sc.Reply))
	if reply.Exc {
		sc.Name += fmt.Sprintf("/exc%d", reply.ExCode)
	}
	return sc, q, nil
}

// Options of one execution.
type Options struct {
	ReadTimeout  time.Duration
	PortTimeout  time.Duration
	WithHooks    bool
	MaxReads     int
	NotConnected bool // do not call Connect (network clients) / pass a nil port (serial)
	NilRequest   bool
	CancelBefore bool // context already cancelled when Do is called
	// CtxTimeout > 0: the caller's context carries a deadline that many VIRTUAL nanoseconds after the call starts
	CtxTimeout    time.Duration
	FlushErr      error
	ReplyOverride []byte // deliver these bytes instead of the scenario's reply (corruption checks)
}

// Run is the complete record of one execution.
type Run struct {
	Resp      packet.Response
	Err       error
	Panic     string
	Hang      bool
	Log       []Event
	Hooks     []HookEvent
	Elapsed   time.Duration
	Reads     int
	Flushes   int
	Delivered int
}

// Execute performs one request call of the scenario against a transport driven by pol.
func Execute(sc Scenario, q packet.Request, pol Policy, o Options) (run Run) {
	vtime.ResetClock()
	if o.ReadTimeout == 0 {
		o.ReadTimeout = 50 * time.Millisecond
	}
	if o.PortTimeout == 0 {
		o.PortTimeout = time.Millisecond
	}
	if o.MaxReads == 0 {
		o.MaxReads = int(o.ReadTimeout/MinReadCost) + 1000 // more reads than the total read timeout can possibly allow
	}
	reply := sc.Reply
	if o.ReplyOverride != nil {
		reply = o.ReplyOverride
	}
	t := &Transport{Kind: sc.Kind, Reply: reply, pol: pol, MaxReads: o.MaxReads, PortTO: o.PortTimeout, FlushErr: o.FlushErr}
	ctx, cancel := context.WithCancel(context.Background())
	defer cancel()
	t.Cancel = cancel
	if o.CancelBefore {
		cancel()
	}
	if o.CtxTimeout > 0 {
		var c2 context.CancelFunc
		ctx, c2 = vtime.WithTimeout(ctx, o.CtxTimeout)
		defer c2()
	}
	var hooks modbus.ClientHooks
	if o.WithHooks {
		hooks = recHooks{t}
	}
	var do func(context.Context, packet.Request) (packet.Response, error)
	switch {
	case sc.Kind.IsSerial():
		var port io.ReadWriteCloser
		if sc.Kind == SerialFlusher {
			port = t
		} else {
			port = plainPort{t}
		}
		opts := []modbus.SerialClientOptionFunc{modbus.WithSerialReadTimeout(o.ReadTimeout)}
		if o.WithHooks {
			opts = append(opts, modbus.WithSerialHooks(hooks))
		}
		var c *modbus.SerialClient
		if o.NotConnected {
			c = modbus.NewSerialClient(nilPort(), opts...)
		} else {
			c = modbus.NewSerialClient(port, opts...)
		}
		do = c.Do
	default:
		conf := modbus.ClientConfig{ReadTimeout: o.ReadTimeout, Hooks: hooks,
			DialContextFunc: func(ctx context.Context, address string) (net.Conn, error) { return t, nil }}
		var c *modbus.Client
		if sc.Kind == TCP {
			c = modbus.NewTCPClientWithConfig(conf)
		} else {
			c = modbus.NewRTUClientWithConfig(conf)
		}
		if !o.NotConnected {
			if err := c.Connect(context.Background(), "mem://device"); err != nil {
				run.Err = fmt.Errorf("harness: connect failed: %w", err)
				return
			}
		}
		do = c.Do
	}
	func() {
		defer func() {
			if rec := recover(); rec != nil {
				if h, ok := rec.(Hang); ok {
					run.Hang = true
					run.Panic = fmt.Sprintf("no return after %d transport reads", h.Reads)
					return
				}
				if re, ok := rec.(interface{ Error() string }); ok && len(re.Error()) > 8 && re.Error()[:8] == "explore:" {
					panic(rec)
				}
				run.Panic = fmt.Sprint(rec)
			}
		}()
		if o.NilRequest {
			run.Resp, run.Err = do(ctx, nil)
		} else {
			run.Resp, run.Err = do(ctx, q)
		}
	}()
	run.Log, run.Hooks, run.Elapsed, run.Reads, run.Flushes, run.Delivered = t.Log, t.Hooks, vtime.Elapsed(), t.Reads, t.Flushes, t.Delivered
	return
}

// nilPort returns a nil io.ReadWriteCloser (a nil interface).
func nilPort() io.ReadWriteCloser { return nil }

// ExceptionOf extracts the typed Modbus exception from an error, if any.
func ExceptionOf(err error, rtu bool) (unit, fn, code uint8, tid uint16, ok bool) {
	if err == nil {
		return
	}
	if rtu {
		var e *packet.ErrorResponseRTU
		if errors.As(err, &e) {
			return e.UnitID, e.Function, e.Code, 0, true
		}
		return
	}
	var e *packet.ErrorResponseTCP
	if errors.As(err, &e) {
		return e.UnitID, e.Function, e.Code, e.TransactionID, true
	}
	return
}

// Observation renders a run for determinism comparison.
func (r Run) Observation() string {
	s := fmt.Sprintf("resp=%T err=%v panic=%q hang=%v elapsed=%v reads=%d flushes=%d;", r.Resp, r.Err, r.Panic, r.Hang, r.Elapsed, r.Reads, r.Flushes)
	if !lib.IsNil(r.Resp) {
		s += fmt.Sprintf("bytes=%x;", r.Resp.Bytes())
	}
	for _, e := range r.Log {
		s += fmt.Sprintf("%s:%d:%x:%s@%d;", e.Op, e.N, e.Data, e.Err, e.AtNs)
	}
	return s
}
