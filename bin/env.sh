# common environment for all verif commands (offline Go build)
export GOFLAGS=-mod=mod GOPROXY=off GOSUMDB=off GOTOOLCHAIN=local
export VERIF_ROOT=/verif
export VERIF_BUILD=/verif/.build
export GOCACHE=${VERIF_GOCACHE:-/verif/.build/gocache}
mkdir -p "$VERIF_BUILD/bin" "$GOCACHE"
